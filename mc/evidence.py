"""Writes /verif/evidence/<ID>.json per EVIDENCE.schema.json."""
import json
import os

VERIF = os.path.dirname(os.path.dirname(os.path.abspath(__file__)))


def jsonable(x, depth=0):
    if isinstance(x, (str, int, float, bool)) or x is None:
        return x
    if isinstance(x, (list, tuple)):
        return [jsonable(i, depth + 1) for i in x]
    if isinstance(x, (set, frozenset)):
        return sorted((jsonable(i, depth + 1) for i in x), key=repr)
    if isinstance(x, dict):
        return {str(k): jsonable(v, depth + 1) for k, v in x.items()}
    return repr(x)


def write(prop, tier, seed, coverage, wall_s, violations, assumptions=()):
    cov = dict(coverage)
    cov.setdefault('samples', [])
    cov['samples'] = jsonable(cov['samples'])[:12]
    doc = {
        'property_id': prop,
        'tier': tier,
        'seed': int(seed),
        'level': 'model_checking',
        'coverage': jsonable(cov),
        'assumptions': list(assumptions),
        'wall_s': round(float(wall_s), 3),
        'violations': int(violations),
    }
    path = os.path.join(VERIF, 'evidence', prop + '.json')
    if os.environ.get('VERIF_NO_EVIDENCE'):      # runs against scratch copies (seeded changes)
        path = os.path.join('/var/tmp', 'evidence_scratch_%s.json' % prop)
    os.makedirs(os.path.dirname(path), exist_ok=True)
    tmp = path + '.tmp'
    with open(tmp, 'w') as f:
        json.dump(doc, f, indent=1, sort_keys=True)
        f.write('\n')
    os.replace(tmp, path)
    return path
