"""./check <ID> quick|thorough   |   ./check <ID> --replay <file>

Exit 0: property held on everything explored (or every violation is a listed
known finding, each printed as KNOWN-FINDING).  Exit 1: a VIOLATION line per
unlisted violation signature.  Exit 2: the harness itself broke.
"""
import faulthandler
import hashlib
import importlib
import json
import os
import sys
import time
import traceback

from . import evidence, findings

VERIF = evidence.VERIF


class Report:
    def __init__(self):
        self.coverage = {}
        self.violations = []   # dicts: sig, what, witness
        self.assumptions = []

    def violation(self, sig, what, witness):
        self.violations.append({'sig': sig, 'what': what, 'witness': witness})


def _write_replay(prop, v):
    d = os.path.join(VERIF, 'replays', prop)
    if os.environ.get('VERIF_NO_EVIDENCE'):
        d = os.path.join('/var/tmp', 'replays_scratch', prop)
    os.makedirs(d, exist_ok=True)
    body = json.dumps(evidence.jsonable(v), sort_keys=True, indent=1)
    h = hashlib.sha1(body.encode()).hexdigest()[:12]
    path = os.path.join(d, h + '.json')
    with open(path, 'w') as f:
        f.write(body + '\n')
    return path


def main(argv=None):
    argv = list(sys.argv[1:] if argv is None else argv)
    if len(argv) < 2:
        print(__doc__)
        return 2
    prop = argv[0].upper()
    seed = int(os.environ.get('VERIF_SEED', '0') or 0)
    mod = importlib.import_module('mc.checks.' + prop.lower())
    watchdog = int(os.environ.get('VERIF_WATCHDOG_S', '0') or 0)
    if argv[1] == '--replay':
        if watchdog:
            faulthandler.dump_traceback_later(watchdog, exit=True)
        ok = mod.replay(argv[2])
        print('replay %s: %s' % (argv[2], 'property holds on this case' if ok
                                 else 'violation reproduced'))
        return 0 if ok else 1
    tier = os.environ.get('VERIF_TIER') or argv[1]
    if argv[1] in ('quick', 'thorough'):
        tier = argv[1]
    if tier not in ('quick', 'thorough'):
        print('unknown tier', tier)
        return 2
    limit = watchdog or (3600 if tier == 'quick' else 6 * 3600)
    faulthandler.dump_traceback_later(limit, exit=True)
    t0 = time.time()
    try:
        rep = mod.run(tier, seed)
    except Exception:
        traceback.print_exc()
        print('HARNESS-ERROR property=%s' % prop)
        return 2
    wall = time.time() - t0
    known = findings.load()
    by_sig = {}
    for v in rep.violations:
        by_sig.setdefault(v['sig'], []).append(v)
    unlisted = 0
    lines = []
    for sig, vs in sorted(by_sig.items()):
        entry = findings.match(known, prop, sig)
        if entry is not None:
            lines.append('KNOWN-FINDING: property=%s %s [%s; %d case(s) this run, e.g. %s]' % (
                prop, entry['what'], sig, len(vs), _short(vs[0]['what'])))
        else:
            unlisted += 1
            v = dict(vs[0])
            v['property'] = prop
            v['cases_with_this_signature'] = len(vs)
            path = _write_replay(prop, v)
            lines.append('VIOLATION property=%s replay=%s' % (prop, path))
            lines.append('  what: %s [%s; %d case(s)]' % (_short(vs[0]['what'], 400), sig, len(vs)))
    cov = dict(rep.coverage)
    cov['known_finding_signatures_seen'] = sorted(
        s for s in by_sig if findings.match(known, prop, s) is not None)
    evidence.write(prop, tier, seed, cov, wall, unlisted, rep.assumptions)
    for line in lines:
        print(line)
    c = rep.coverage
    print('%s %s: states=%s transitions=%s validated=%s distinct=%s exhaustive=%s wall=%.1fs violations=%d known=%d' % (
        prop, tier, c.get('states'), c.get('transitions'),
        c.get('traces_validated_against_impl'), c.get('distinct_nontrivial'),
        c.get('exhaustive'), wall, unlisted, len(by_sig) - unlisted))
    sys.stdout.flush()
    return 1 if unlisted else 0


def _short(s, n=160):
    s = str(s).replace('\n', ' ')
    return s if len(s) <= n else s[:n] + '...'


if __name__ == '__main__':
    code = main()
    sys.stdout.flush()
    os._exit(code)
