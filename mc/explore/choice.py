"""Stateless exploration of choice sequences (shape S).

run(chooser) executes the system once; every nondeterministic seam calls
chooser.choose(n, kind, cost) and gets an index in range(n) (0 = default).
explore() enumerates, depth-first, every choice sequence whose total deviation
cost stays within `bound` (CHESS-style iterative bounding when called with
bound 0, 1, 2 ...).  An out-of-range choice while replaying a prefix is a hard
error.
"""


class ReplayDivergence(Exception):
    pass


class Chooser:
    def __init__(self, prefix=()):
        self.prefix = list(prefix)
        self.points = []        # (n, chosen, kind, costs)

    def choose(self, n, kind='', costs=None):
        """costs: list of deviation costs per alternative (default: 0 for
        alternative 0, 1 for every other)."""
        i = len(self.points)
        if i < len(self.prefix):
            c = self.prefix[i]
            if not (0 <= c < n):
                raise ReplayDivergence('choice %d out of range %d at point %d (%s)' % (c, n, i, kind))
        else:
            c = 0
        if costs is None:
            costs = [0] + [1] * (n - 1)
        self.points.append((n, c, kind, costs))
        return c

    @property
    def choices(self):
        return [p[1] for p in self.points]


def explore(run, bound=None, max_execs=None, on_exec=None, shard=None, expand=None):
    """run(chooser) -> result.  Yields (choices, result) for every execution.

    bound None: all sequences (the run function must bound its own depth).
    shard (rank, n): deterministic partition of the search: the subtrees below
    the root execution are dealt round-robin to the n shards (the root itself
    is reported by shard 0 only); the union over all shards is the whole space.
    """
    stack = [[]]
    n_exec = 0
    root = True
    while stack:
        prefix = stack.pop()
        ch = Chooser(prefix)
        result = run(ch)
        n_exec += 1
        do_expand = True if expand is None else expand(ch, result)
        if not (root and shard is not None and shard[0] != 0):
            yield ch, result
        if max_execs is not None and n_exec >= max_execs:
            return
        if not do_expand:
            root = False
            continue          # the harness asks not to branch below this execution (e.g. it already fails)
        pts = ch.points
        spent = 0
        prefix_cost = []
        for (n, c, kind, costs) in pts:
            prefix_cost.append(spent)
            spent += costs[c]
        # alternatives at points beyond the replayed prefix (last first, so
        # that DFS pops the earliest deviation first)
        new = []
        for i in range(len(pts) - 1, len(prefix) - 1, -1):
            n, c, kind, costs = pts[i]
            for alt in range(n - 1, 0, -1):
                if bound is not None and prefix_cost[i] + costs[alt] > bound:
                    continue
                new.append(ch.choices[:i] + [alt])
        if root and shard is not None:
            new = [p for k, p in enumerate(new) if k % shard[1] == shard[0]]
        root = False
        stack.extend(new)
