"""Controlled threads, locks, events, sleep and time under one baton (shape S).

Real OS threads, but exactly one is ever unblocked: each controlled thread
owns a private semaphore (its baton).  Every shim operation and — through
sys.settrace on the controlled threads, restricted to registered code — every
*line* of the code under exploration is a scheduling point at which the
explorer's chooser decides who runs next.

Virtual time advances only when no thread is runnable (to the earliest timer),
or as an explicit "stall" deviation offered at scheduling points.

Verdicts: DEADLOCK (nothing enabled, no timer), SPIN (step budget exhausted),
OVERRUN (virtual horizon passed with non-daemon threads alive), HANG (harness
watchdog; a bug of the harness, never a finding).
"""
import datetime as _real_datetime
import dis as _dis
import sys
import threading as _real_threading
import time as _real_time


_MON_TOOL = 3
_ACTIVE = [None]          # the scheduler whose controlled threads receive INSTRUCTION events
_mon_ready = [False]


def _codes_of(modules):
    """all code objects defined in the given modules (functions, methods, nested code)"""
    import types
    seen, out = set(), []

    def add_code(c):
        if id(c) in seen:
            return
        seen.add(id(c))
        out.append(c)
        for k in c.co_consts:
            if isinstance(k, types.CodeType):
                add_code(k)

    def add_obj(o, modname):
        if isinstance(o, types.FunctionType):
            if o.__module__ == modname:
                add_code(o.__code__)
        elif isinstance(o, (staticmethod, classmethod)):
            add_obj(o.__func__, modname)
        elif isinstance(o, property):
            for f in (o.fget, o.fset, o.fdel):
                if f is not None:
                    add_obj(f, modname)
        elif isinstance(o, type) and o.__module__ == modname:
            for v in vars(o).values():
                add_obj(v, modname)
    for m in modules:
        for v in list(vars(m).values()):
            add_obj(v, m.__name__)
    return out


def _on_instruction(code, offset):
    s = _ACTIVE[0]
    if s is None or _real_threading.get_ident() not in s._idents:
        return
    name = _dis.opname[code.co_code[offset]]
    if name in Scheduler.VISIBLE:
        s.point('op', (code.co_name, offset))


class _Unwind(BaseException):
    """Raised inside controlled threads to take them down at the end of an execution."""


class Verdict(Exception):
    pass


BASE = _real_datetime.datetime(2026, 1, 5, 0, 0, 0)      # virtual day starts at 00:00


class _T:
    __slots__ = ('id', 'name', 'baton', 'state', 'wake_time', 'wake_reason', 'daemon',
                 'os_thread', 'target', 'args', 'started', 'blocked_on', 'exc')

    def __init__(self, tid, name, target, args, daemon):
        self.id = tid
        self.name = name
        self.baton = _real_threading.Semaphore(0)
        self.state = 'new'
        self.wake_time = None
        self.wake_reason = None
        self.daemon = daemon
        self.os_thread = None
        self.target = target
        self.args = args
        self.started = False
        self.blocked_on = None
        self.exc = None


class Scheduler:
    def __init__(self, chooser, horizon=1e9, max_steps=20000, trace_filter=None,
                 stall=False, line_points=True, opcode_points=False, trace_modules=()):
        self.chooser = chooser
        self.threads = []
        self.current = None
        self.now = 0.0
        self.horizon = horizon
        self.max_steps = max_steps
        self.steps = 0
        self.verdict = None
        self.aborting = False
        self.finished = _real_threading.Event()
        self.trace_filter = trace_filter      # callable(code) -> bool
        self.stall = stall
        self.line_points = line_points
        self.opcode_points = opcode_points
        self.trace_modules = tuple(trace_modules)
        self._idents = set()
        self.events = []                      # harness-visible log: (now, thread name, what...)
        self.errors = []                      # (thread name, exception repr)
        self.points = 0
        self.point_log = None                 # optional list of (thread, kind) per point
        self.shared_access = None
        self.extra = None
        self.harness_error = None
        self.stalled = 0.0                # virtual time that passed through stall deviations
        self.slice = 150                  # fairness: max consecutive points of one thread while others are enabled
        self._streak = 0
        self.choices_open = True          # harness may close the window in which deviations are offered
        self._tracer_cache = {}

    # ------------------------------------------------------------ logging
    def log(self, *what):
        self.events.append((round(self.now, 6), self.me().name) + what)

    def me(self):
        return self.current

    # ------------------------------------------------------------ threads
    def spawn(self, target, args=(), daemon=False, name=None):
        t = _T(len(self.threads), name or 'T%d' % len(self.threads), target, args, daemon)
        self.threads.append(t)
        return t

    def start_thread(self, t):
        t.started = True
        t.state = 'runnable'
        t.os_thread = _real_threading.Thread(target=self._thread_main, args=(t,), daemon=True)
        t.os_thread.start()

    def _thread_main(self, t):
        t.baton.acquire()
        self._idents.add(_real_threading.get_ident())
        try:
            if self.aborting:
                raise _Unwind()
            if self.trace_filter is not None and self.line_points and not self.opcode_points:
                sys.settrace(self._global_trace)
            try:
                t.target(*t.args)
            finally:
                sys.settrace(None)
        except _Unwind:
            pass
        except Verdict:
            pass
        except BaseException as ex:       # noqa: escaping exceptions are part of the observation
            t.exc = ex
            self.errors.append((t.name, '%s: %s' % (type(ex).__name__, ex)))
        finally:
            try:
                self._thread_exit(t)
            except BaseException:           # a bug of the harness (or a replay divergence): fail loudly, never hang
                import traceback
                self.harness_error = traceback.format_exc()
                self.aborting = True
                t.state = 'done'
                for o in self.threads:
                    o.baton.release()
                self.finished.set()

    def _thread_exit(self, t):
        t.state = 'done'
        for o in self.threads:
            if o.state == 'blocked' and o.blocked_on == ('join', t.id):
                self._wake(o, 'joined')
        if not self.aborting:
            if all(x.state == 'done' or x.daemon or not x.started for x in self.threads):
                self.aborting = True          # normal end: unwind daemon threads
            else:
                try:
                    nxt = self._pick_after_block()
                except Verdict:
                    nxt = None
                if nxt is not None:
                    self.current = nxt
                    nxt.baton.release()
                    return
        # aborting: hand the baton to the next thread that still has to unwind
        for o in self.threads:
            if o.started and o.state != 'done':
                self.current = o
                o.baton.release()
                return
        self.finished.set()

    # ------------------------------------------------------------ tracing
    def _global_trace(self, frame, event, arg):
        code = frame.f_code
        hit = self._tracer_cache.get(code)
        if hit is None:
            hit = bool(self.trace_filter(code))
            self._tracer_cache[code] = hit
        return self._local_trace if hit else None

    # bytecodes through which one thread can observe or affect another under the GIL; purely local
    # bytecodes commute with everything and are not scheduling points
    VISIBLE = frozenset(('LOAD_ATTR', 'STORE_ATTR', 'DELETE_ATTR', 'LOAD_GLOBAL', 'STORE_GLOBAL', 'CALL',
                         'CALL_FUNCTION_EX', 'BINARY_SUBSCR', 'STORE_SUBSCR', 'DELETE_SUBSCR', 'LOAD_METHOD',
                         'CONTAINS_OP', 'GET_ITER', 'FOR_ITER'))

    def _local_trace(self, frame, event, arg):
        if event == 'line':
            self.point('line', (frame.f_code.co_filename.rsplit('/', 1)[-1], frame.f_lineno))
        return self._local_trace

    # ------------------------------------------------------------ scheduling
    def _enabled(self):
        cur = self.current
        out = [cur] if cur.state == 'runnable' else []
        out += [t for t in self.threads if t is not cur and t.state == 'runnable']
        return out

    def _abort(self, verdict):
        self.verdict = verdict
        self.aborting = True
        raise _Unwind()

    def _check_limits(self):
        if self.aborting:
            raise _Unwind()
        self.steps += 1
        if self.steps > self.max_steps:
            self._abort('SPIN')
        if self.now > self.horizon:
            self._abort('OVERRUN')

    def point(self, kind, info=None):
        """A scheduling point of the running thread (which stays enabled).

        Alternatives, in order: stay (0) | switch to another enabled thread (1
        each) | stall: time jumps to the next timer (1) | extras offered by the
        harness through self.extra(self) -> [(label, cost, action)]."""
        self._check_limits()
        me = self.current
        self.points += 1
        if self.point_log is not None:
            self.point_log.append((me.name, kind, info))
        en = self._enabled()
        self._streak += 1
        if self._streak > self.slice and len(en) > 1:
            # time slice used up: like an OS, let the next enabled thread run
            self._switch_to(en[1])
            return
        timers = self.stall and any(t.state == 'blocked' and t.wake_time is not None for t in self.threads)
        extras = self.extra(self) if self.extra is not None else ()
        forced = [e for e in extras if e[1] is None]
        if forced:
            target = forced[0][2](self)
            if target is not None:
                self._switch_to(target)
            return
        if not self.choices_open:
            timers = False
            en = en[:1]
        n = len(en) + (1 if timers else 0) + len(extras)
        if n <= 1:
            return
        costs = [0] + [1] * (len(en) - 1) + ([1] if timers else []) + [e[1] for e in extras]
        c = self.chooser.choose(n, '%s:%s' % (me.name, kind), costs)
        if c == 0:
            return
        if c < len(en):
            self._switch_to(en[c])
            return
        c -= len(en)
        if timers:
            if c == 0:                       # stall: time jumps to the next timer
                before = self.now
                self._advance_time()
                self.stalled += self.now - before
                return self.point('after-stall')
            c -= 1
        target = extras[c][2](self)          # harness action; may name a thread to run now
        if target is not None:
            self._switch_to(target)

    def yield_point(self, kind):
        """The running thread found nothing to wait for and is about to loop
        (a spin).  Fair default: run another enabled thread, if there is one;
        staying is a deviation."""
        self._check_limits()
        self.points += 1
        en = self._enabled()
        if len(en) <= 1:
            return
        others = en[1:]
        if not self.choices_open:
            self._switch_to(others[0])
            return
        order = others + [en[0]]
        c = self.chooser.choose(len(order), '%s:yield:%s' % (self.current.name, kind), [0] + [1] * (len(order) - 1))
        if order[c] is not self.current:
            self._switch_to(order[c])

    def _switch_to(self, t):
        me = self.current
        if t is me:
            return
        self._streak = 0
        self.current = t
        t.baton.release()
        me.baton.acquire()
        if self.aborting:
            raise _Unwind()

    def _advance_time(self):
        timers = [t for t in self.threads if t.state == 'blocked' and t.wake_time is not None]
        if not timers:
            return False
        when = min(t.wake_time for t in timers)
        if when > self.now:
            self.now = when
        for t in timers:
            if t.wake_time <= self.now:
                self._wake(t, 'timeout')
        return True

    def _wake(self, t, reason):
        t.state = 'runnable'
        t.wake_time = None
        t.wake_reason = reason
        t.blocked_on = None

    def _pick_after_block(self):
        """Choose who runs when the running thread cannot continue.  Default:
        the lowest-numbered enabled thread; any other choice is one deviation
        (it equals the default followed by an immediate preemption)."""
        while True:
            en = [t for t in self.threads if t.state == 'runnable']
            if en:
                if len(en) == 1:
                    return en[0]
                c = self.chooser.choose(len(en), 'blocked-switch', [0] + [1] * (len(en) - 1))
                return en[c]
            if self.now > self.horizon:
                self.verdict = 'OVERRUN'
                self.aborting = True
                raise Verdict()
            if not self._advance_time():
                live = [t for t in self.threads if t.started and t.state != 'done' and not t.daemon]
                self.verdict = 'DEADLOCK' if live else None
                self.aborting = True
                raise Verdict()

    def block(self, on, timeout=None):
        """Block the running thread until woken; returns the wake reason."""
        self._check_limits()
        me = self.current
        me.state = 'blocked'
        me.blocked_on = on
        me.wake_time = None if timeout is None else self.now + max(0.0, timeout)
        me.wake_reason = None
        try:
            nxt = self._pick_after_block()
        except Verdict:
            raise _Unwind()
        if nxt is not me:
            self.current = nxt
            nxt.baton.release()
            me.baton.acquire()
            if self.aborting:
                raise _Unwind()
        return me.wake_reason

    # ------------------------------------------------------------ run
    def _monitor(self, on):
        """opcode mode: INSTRUCTION events (PEP 669) on the code objects of trace_modules that pass trace_filter.
        (With sys.settrace the first execution of a function is not yet instrumented for opcode events, which
        made replays diverge.)"""
        mon = sys.monitoring
        if not _mon_ready[0]:
            mon.use_tool_id(_MON_TOOL, 'mc-vthreads')
            mon.register_callback(_MON_TOOL, mon.events.INSTRUCTION, _on_instruction)
            _mon_ready[0] = True
        codes = [c for c in _codes_of(self.trace_modules) if self.trace_filter(c)]
        for c in codes:
            mon.set_local_events(_MON_TOOL, c, mon.events.INSTRUCTION if on else 0)
        _ACTIVE[0] = self if on else None

    def run(self, main_fn, watchdog_s=30.0):
        if self.opcode_points:
            self._monitor(True)
        try:
            return self._run(main_fn, watchdog_s)
        finally:
            if self.opcode_points:
                self._monitor(False)

    def _run(self, main_fn, watchdog_s=30.0):
        main = self.spawn(main_fn, (), False, 'main')
        self.start_thread(main)
        self.current = main
        main.baton.release()
        if not self.finished.wait(watchdog_s):
            self.verdict = 'HANG'
            self.aborting = True
            for t in self.threads:           # best effort: let everything unwind
                t.baton.release()
            _real_time.sleep(0.2)
        for t in self.threads:
            if t.os_thread is not None:
                t.os_thread.join(2.0)
        if self.harness_error:
            raise RuntimeError('scheduler failure inside a controlled thread:\n' + self.harness_error)
        return self.verdict


# =================================================================== shims
class ShimThread:
    _sched = None

    def __init__(self, group=None, target=None, name=None, args=(), kwargs=None, daemon=None):
        s = self._sched
        self._t = s.spawn(self._run, (), bool(daemon), s.next_thread_name() if hasattr(s, 'next_thread_name') else name)
        self._target = target
        self._args = args
        self._kwargs = kwargs or {}
        self.name = self._t.name
        self.daemon = bool(daemon)

    def _run(self):
        if self._target is not None:
            self._target(*self._args, **self._kwargs)

    def start(self):
        s = self._sched
        self._t.daemon = bool(self.daemon)
        s.start_thread(self._t)
        s.point('thread-start')

    def is_alive(self):
        s = self._sched
        s.point('is_alive')
        return self._t.started and self._t.state != 'done'

    def join(self, timeout=None):
        s = self._sched
        s.point('join')
        if self._t.state == 'done' or not self._t.started:
            return
        s.block(('join', self._t.id), timeout)


class ShimRLock:
    _sched = None

    def __init__(self):
        self.owner = None
        self.count = 0
        self.timed_out = 0

    def acquire(self, blocking=True, timeout=-1):
        s = self._sched
        s.point('lock-acquire')
        me = s.me()
        deadline = None if (timeout is None or timeout < 0) else s.now + timeout
        while True:
            if self.owner is None or self.owner is me:
                self.owner = me
                self.count += 1
                return True
            if not blocking:
                return False
            remaining = None if deadline is None else deadline - s.now
            if remaining is not None and remaining <= 0:
                self.timed_out += 1
                return False
            s.block(('lock', id(self)), remaining)

    def release(self):
        s = self._sched
        if self.owner is not s.me():
            raise RuntimeError('cannot release un-acquired lock')
        self.count -= 1
        if self.count == 0:
            self.owner = None
            for t in s.threads:
                if t.state == 'blocked' and t.blocked_on == ('lock', id(self)):
                    s._wake(t, 'lock-free')
        s.point('lock-release')

    __enter__ = acquire

    def __exit__(self, *a):
        self.release()


class ShimEvent:
    _sched = None

    def __init__(self):
        self._flag = False

    def is_set(self):
        return self._flag

    def set(self):
        s = self._sched
        s.point('event-set')
        self._flag = True
        for t in s.threads:
            if t.state == 'blocked' and t.blocked_on == ('event', id(self)):
                s._wake(t, 'event')

    def clear(self):
        s = self._sched
        s.point('event-clear')
        self._flag = False

    def wait(self, timeout=None):
        s = self._sched
        s.point('event-wait')
        if self._flag:
            s.yield_point('event-already-set')
            return True
        reason = s.block(('event', id(self)), timeout)
        return True if reason == 'event' else self._flag


class ShimTime:
    def __init__(self, sched):
        self._s = sched

    def time(self):
        return self._s.now + 1767571200.0        # seconds since the epoch at BASE (UTC)

    def monotonic(self):
        return self._s.now

    def sleep(self, d):
        s = self._s
        s.point('sleep')
        if d > 0:
            s.block(('sleep',), d)


class ShimDatetimeClass:
    def __init__(self, sched, offset=0.0):
        self._s = sched
        self._offset = offset           # seconds after midnight at virtual time 0

    def now(self, tz=None):
        self._s.point('datetime-now')   # reading the wall clock is an observation of shared state (time)
        return BASE + _real_datetime.timedelta(seconds=self._s.now + self._offset)


class ShimThreadingModule:
    """Stands in for the `threading` module inside the code under exploration."""

    def __init__(self, sched, thread_names=None):
        names = iter(thread_names or ())
        counter = [0]

        def next_name():
            counter[0] += 1
            return next(names, None) or 'thread-%d' % counter[0]
        sched.next_thread_name = next_name
        self.Thread = type('Thread', (ShimThread,), {'_sched': sched})
        self.RLock = type('RLock', (ShimRLock,), {'_sched': sched})
        self.Lock = self.RLock
        self.Event = type('Event', (ShimEvent,), {'_sched': sched})
        self._sched = sched

    def current_thread(self):
        return self._sched.me()
