"""Image-vs-source pushdown product (C05).

image system : the loader's image as an abstract machine (pc, stack); data is
               abstracted away, a conditional JUMP has both successors.
source system: the same abstraction of the AST (if = choice, loop = pass or
               leave, break leaves the innermost loop, return leaves the call).
product      : on-the-fly subset construction over marker-labelled moves; from
               every pair of state sets the sets of next markers (and "halt")
               must coincide.
"""
from collections import deque

from bardolph.controller.routine import RuntimeRoutine
from bardolph.vm.vm_codes import (IoOp, JumpCondition, OpCode, Operand, Register)

MAX_STACK = 14
MAX_CALLS = 3
L = 'L'


class Violation(Exception):
    def __init__(self, kind, detail):
        super().__init__(kind)
        self.kind = kind
        self.detail = detail


# ====================================================================== image
class ImageSystem:
    def __init__(self, code, routines):
        self.code = code
        self.n = len(code)
        self.routines = routines
        self.user = {name: r for name, r in routines.items()
                     if not isinstance(r, RuntimeRoutine)}
        # segment of each user routine: [ROUTINE marker index, END index]
        self.segments = {}
        for name, r in self.user.items():
            start = r.get_address() - 1
            end = None
            for i in range(max(start, 0), self.n):
                inst = code[i]
                if inst.op_code is OpCode.END and inst.param0 == name:
                    end = i
                    break
            self.segments[name] = (start, end)
        self.labels = {}
        for i in range(self.n - 2):
            a, b, c = code[i], code[i + 1], code[i + 2]
            if (a.op_code is OpCode.MOVEQ and a.param1 is Register.RESULT
                    and b.op_code is OpCode.OUT and b.param0 is IoOp.REGISTER
                    and c.op_code is OpCode.OUT and c.param0 is IoOp.PRINT):
                self.labels[i + 2] = a.param0
        self.problems = []          # structural problems found while building

    def initial(self):
        return (0, ())

    def routine_at(self, pc):
        for name, (s, e) in self.segments.items():
            if e is not None and s <= pc <= e:
                return name
        return None

    def current_routine(self, stack):
        for entry in reversed(stack):
            if entry is not L and entry[1] is not None:
                return entry[2]
        return None

    def check_state(self, state):
        """Invariants of every reachable abstract state; raises Violation."""
        pc, stack = state
        if not (0 <= pc <= self.n):
            raise Violation('pc-outside-image', 'pc=%r len=%d' % (pc, self.n))
        if len(stack) > MAX_STACK:
            raise Violation('frames-grow-without-bound', 'stack=%r' % (stack,))
        if pc == self.n:
            if stack:
                raise Violation('halt-with-frames-dangling', 'stack=%r' % (stack,))
            return
        here = self.routine_at(pc)
        cur = self.current_routine(stack)
        if here != cur:
            raise Violation('in-routine-body-without-call' if here is not None
                            else 'left-routine-without-return',
                            'pc=%d is in %r but the innermost active call is %r' % (pc, here, cur))
        inst = self.code[pc]
        if inst.op_code is OpCode.ROUTINE:
            raise Violation('fell-into-routine-header', 'pc=%d' % pc)

    def is_halt(self, state):
        pc, _ = state
        return pc == self.n or (pc < self.n and self.code[pc].op_code is OpCode.STOP)

    def succ(self, state):
        """-> list of (label or None, next_state). Raises Violation."""
        pc, stack = state
        if self.is_halt(state):
            return []
        inst = self.code[pc]
        op = inst.op_code
        label = self.labels.get(pc)
        if op is OpCode.JUMP:
            cond = inst.param0
            if cond is JumpCondition.ALWAYS:
                return [(None, (pc + inst.param1, stack))]
            if cond in (JumpCondition.IF_FALSE, JumpCondition.IF_TRUE):
                return [(None, (pc + inst.param1, stack)), (None, (pc + 1, stack))]
            raise Violation('indirect-jump', 'pc=%d' % pc)
        if op is OpCode.CTX:
            return [(None, (pc + 1, stack + (('C', None, None),)))]
        if op is OpCode.JSR:
            name = inst.param0
            if name not in self.routines:
                raise Violation('call-of-missing-routine', 'pc=%d name=%r' % (pc, name))
            if not stack or stack[-1] is L or stack[-1][1] is not None:
                raise Violation('call-without-fresh-context', 'pc=%d stack=%r' % (pc, stack))
            if name not in self.user:
                return [(None, (pc + 1, stack[:-1]))]
            depth = sum(1 for e in stack if e is not L and e[1] is not None)
            if depth >= MAX_CALLS:
                return []              # recursion cut (same rule on the source side)
            new = stack[:-1] + (('C', pc + 1, name),)
            return [(None, (self.user[name].get_address(), new))]
        if op is OpCode.RETURN or (op is OpCode.END and inst.param0 is not Operand.MATRIX):
            st = stack
            while st and st[-1] is L:
                st = st[:-1]
            if not st or st[-1][1] is None:
                raise Violation('return-without-call', 'pc=%d stack=%r' % (pc, stack))
            if op is OpCode.END and st[-1][2] != inst.param0:
                raise Violation('end-of-other-routine', 'pc=%d END %r in call of %r' % (pc, inst.param0, st[-1][2]))
            ret = st[-1][1]
            if op is OpCode.RETURN:
                # Machine.run adds 1 to pc after every instruction other than
                # END/JSR/JUMP, so RETURN resumes one past the recorded address,
                # skipping the END_CTX no-op that follows every JSR; END resumes
                # at it.  Both reach the statement after the call.
                if not (ret < self.n and self.code[ret].op_code is OpCode.END_CTX):
                    raise Violation('return-skips-a-real-instruction',
                                    'pc=%d returns to %d which is not END_CTX' % (pc, ret))
                ret += 1
            return [(None, (ret, st[:-1]))]
        if op is OpCode.LOOP:
            return [(None, (pc + 1, stack + (L,)))]
        if op is OpCode.END_LOOP:
            if not stack or stack[-1] is not L:
                raise Violation('end-loop-without-loop-frame', 'pc=%d stack=%r' % (pc, stack))
            return [(None, (pc + 1, stack[:-1]))]
        return [(label, (pc + 1, stack))]

    def explore(self, cap=20000):
        """All reachable abstract states (BFS); checks invariants; -> (states, edges)."""
        init = self.initial()
        seen = {init}
        edges = set()
        q = deque([init])
        while q:
            s = q.popleft()
            self.check_state(s)
            for lab, t in self.succ(s):
                edges.add((s, t))
                if t not in seen:
                    if len(seen) >= cap:
                        raise Violation('abstract-state-cap', 'more than %d states' % cap)
                    seen.add(t)
                    q.append(t)
        return seen, edges


# ===================================================================== source
class SourceSystem:
    """Compiles the AST into a small graph with explicit call/return."""

    def __init__(self, prog):
        self.nodes = []            # node -> list of (label|None, kind, arg)
        self.routines = {}
        self._collect(prog)
        self.entries = {}
        self.halt = self._new()
        start = self._new()
        for name, d in self.routines.items():
            entry = self._new()
            self.entries[name] = entry
        for name, d in self.routines.items():
            ret = self._new()
            self.nodes[ret].append((None, 'ret', None))
            self._seq(d[3], self.entries[name], ret, None, ret)
        self._seq(prog, start, self.halt, None, None)
        self.start = start

    def _collect(self, stmts):
        for s in stmts:
            if s[0] == 'define':
                self.routines[s[1]] = s
            elif s[0] == 'if':
                for _, b in s[1]:
                    self._collect(b)
                if s[2]:
                    self._collect(s[2])
            elif s[0] == 'repeat':
                self._collect(s[2])

    def _new(self):
        self.nodes.append([])
        return len(self.nodes) - 1

    def _edge(self, a, b, label=None):
        self.nodes[a].append((label, 'go', b))

    def _seq(self, stmts, entry, exit_, brk, ret):
        cur = entry
        for i, s in enumerate(stmts):
            nxt = self._new() if i + 1 < len(stmts) else exit_
            self._stmt(s, cur, nxt, brk, ret)
            cur = nxt
        if not stmts:
            self._edge(entry, exit_)

    def _stmt(self, s, a, b, brk, ret):
        k = s[0]
        if k == 'print' and s[1] is not None and s[1][0] == 'num':
            self._edge(a, b, s[1][1])
        elif k == 'if':
            for _, body in s[1]:
                e = self._new()
                self._edge(a, e)
                self._seq(body, e, b, brk, ret)
            if s[2] is not None:
                e = self._new()
                self._edge(a, e)
                self._seq(s[2], e, b, brk, ret)
            else:
                self._edge(a, b)
        elif k == 'repeat':
            head = self._new()
            self._edge(a, head)
            self._edge(head, b)                   # leave
            body = self._new()
            self._edge(head, body)                # pass
            self._seq(s[2], body, head, b, ret)
        elif k == 'break':
            self._edge(a, brk)
        elif k == 'return':
            self._edge(a, ret)
        elif k == 'callst':
            self.nodes[a].append((None, 'call', (s[1], b)))
        else:                                     # define, assign, ... : no control effect
            self._edge(a, b)

    def initial(self):
        return (self.start, ())

    def is_halt(self, state):
        return state[0] == self.halt

    def succ(self, state):
        node, stack = state
        out = []
        for label, kind, arg in self.nodes[node]:
            if kind == 'go':
                out.append((label, (arg, stack)))
            elif kind == 'call':
                name, back = arg
                if name not in self.entries:
                    continue
                if len(stack) >= MAX_CALLS:
                    continue
                out.append((None, (self.entries[name], stack + (back,))))
            elif kind == 'ret':
                if stack:
                    out.append((None, (stack[-1], stack[:-1])))
        return out


# ==================================================================== product
def _closure(system, states):
    seen = set(states)
    q = deque(states)
    while q:
        s = q.popleft()
        for lab, t in system.succ(s):
            if lab is None and t not in seen:
                seen.add(t)
                q.append(t)
    return frozenset(seen)


def _moves(system, closed):
    by = {}
    halt = False
    for s in closed:
        if system.is_halt(s):
            halt = True
        for lab, t in system.succ(s):
            if lab is not None:
                by.setdefault(lab, set()).add(t)
    return by, halt


def product(img, src, depth=12, cap=4000):
    """None if the marker languages agree to `depth`, else (path, img_opts, src_opts)."""
    a0 = _closure(img, [img.initial()])
    b0 = _closure(src, [src.initial()])
    seen = {(a0, b0)}
    q = deque([(a0, b0, ())])
    pairs = 0
    while q:
        a, b, path = q.popleft()
        pairs += 1
        ma, ha = _moves(img, a)
        mb, hb = _moves(src, b)
        opts_a = set(ma) | ({'halt'} if ha else set())
        opts_b = set(mb) | ({'halt'} if hb else set())
        if opts_a != opts_b:
            return path, sorted(map(str, opts_a)), sorted(map(str, opts_b)), pairs
        if len(path) >= depth:
            continue
        for lab in ma:
            na = _closure(img, ma[lab])
            nb = _closure(src, mb[lab])
            if (na, nb) not in seen:
                if len(seen) >= cap:
                    return None, None, None, pairs
                seen.add((na, nb))
                q.append((na, nb, path + (lab,)))
    return None, None, None, pairs
