"""Puts the bardolph tree under test first on sys.path.

BARDOLPH_REPO defaults to /repo; scratch copies used for seeded changes set it.
sys.path[0] wins over the editable-install finder (which sits at the end of
sys.meta_path), so `import bardolph` / `import web` come from this tree.
"""
import os
import sys

REPO = os.environ.get('BARDOLPH_REPO', '/repo')
if sys.path[0] != REPO:
    sys.path.insert(0, REPO)
sys.dont_write_bytecode = True
os.environ.setdefault('BARDOLPH_VERIF', '1')


def assert_from_repo():
    import bardolph
    got = os.path.realpath(os.path.dirname(os.path.dirname(bardolph.__file__)))
    want = os.path.realpath(REPO)
    assert got == want, 'bardolph imported from %s, wanted %s' % (got, want)
