"""16-way process pool over deterministic partitions of an enumeration."""
import multiprocessing as mp
import os
import traceback

NPROC = int(os.environ.get('VERIF_NPROC', '0') or 0) or min(16, os.cpu_count() or 1)


def _call(args):
    fn, rank, n, extra = args
    try:
        return ('ok', fn(rank, n, *extra))
    except BaseException:
        return ('err', traceback.format_exc())


def run(fn, extra=(), nproc=None):
    """fn(rank, n, *extra) -> result; returns list of results (rank order).

    fn must be a module-level function.  Workers are forked so that large
    read-only tables built by the parent are shared.
    """
    n = nproc or NPROC
    if n == 1:
        return [fn(0, 1, *extra)]
    ctx = mp.get_context('fork')
    with ctx.Pool(n) as pool:
        outs = pool.map(_call, [(fn, r, n, tuple(extra)) for r in range(n)], chunksize=1)
    res = []
    for kind, val in outs:
        if kind == 'err':
            raise RuntimeError('worker failed:\n' + val)
        res.append(val)
    return res


def run_tasks(fn, tasks, nproc=None):
    """fn(task) for every task, dynamic scheduling; returns results in order."""
    n = nproc or NPROC
    tasks = list(tasks)
    if n == 1 or len(tasks) <= 1:
        return [fn(t) for t in tasks]
    ctx = mp.get_context('fork')
    with ctx.Pool(n) as pool:
        outs = pool.map(_call2, [(fn, t) for t in tasks], chunksize=1)
    res = []
    for kind, val in outs:
        if kind == 'err':
            raise RuntimeError('worker failed:\n' + val)
        res.append(val)
    return res


def _call2(args):
    fn, t = args
    try:
        return ('ok', fn(t))
    except BaseException:
        return ('err', traceback.format_exc())
