"""Reference interpreter: a direct recursive evaluator over the AST of
lang/render.py producing the expected event trace.  Written from
docs/language.rst and the property statements; imports nothing from bardolph.

Events:
  ('wait', seconds)            ('wait_until', frozenset[(h, m)])
  ('dev', label, 'set_color', (h,s,b,k) exact, duration exact, free)
  ('dev', label, 'set_power', on?, duration exact)
  ('dev', label, 'set_zone_color', first, last_exclusive, colour, duration, free)
  ('dev', label, 'set_tile', (cells...), duration)      cell = (colour, free)
  ('dev', label, 'get_color')
  ('all', 'set_color', colour, duration, free)   ('all', 'set_power', on?, duration)
  ('out', value)  ('nl',)

Shapes whose meaning the documentation does not fix raise RefUndefined.
"""
import re
from fractions import Fraction as F

from . import refunits as U

COLOR_REGS = ('hue', 'saturation', 'brightness', 'kelvin', 'red', 'green', 'blue')
_PAT = re.compile(r'^(\*|\*\d|\d\*|\d|\d\d):(\d\d|\d\*|\*\d|\*)$')


class RefUndefined(Exception):
    pass


class RefCap(Exception):
    pass


class _Break(Exception):
    pass


class _Return(Exception):
    def __init__(self, value):
        self.value = value


NOTHING = ('nothing',)     # "value" of a call that returned no value


def pattern_set(text):
    mo = _PAT.match(text)
    if mo is None:
        raise RefUndefined('malformed pattern %r' % text)
    hp, mp = mo.groups()

    def ok(value, pat):
        if pat == '*':
            return True
        if len(pat) == 1:
            return value == int(pat)
        return all(p in ('*', c) for p, c in zip(pat, '%02d' % value))
    return frozenset((h, m) for h in range(24) if ok(h, hp)
                     for m in range(60) if ok(m, mp))


class Frame:
    def __init__(self, routine):
        self.routine = routine
        self.params = {}
        self.locals = {}


class Ref:
    def __init__(self, population, cap=20000):
        """population: iterable of objects with label/group/location/kind/zones/h/w."""
        self.pop = {d.label: d for d in population}
        self.cap = cap

    # ------------------------------------------------------------ helpers
    def lights(self):
        return sorted(self.pop)

    def groups(self):
        return sorted({d.group for d in self.pop.values()})

    def locations(self):
        return sorted({d.location for d in self.pop.values()})

    def members(self, kind, name):
        if kind == 'group':
            return sorted(l for l, d in self.pop.items() if d.group == name)
        return sorted(l for l, d in self.pop.items() if d.location == name)

    # ------------------------------------------------------------ run
    def run(self, prog):
        self.events = []
        self.regs = dict.fromkeys(COLOR_REGS, 0)
        self.regs.update(duration=0, time=0)
        self.mode = 'logical'
        self.default = None
        self.globals = {}
        self.macros = {}
        self.routines = {}
        self.frames = []
        self.steps = 0
        self.matrix = None          # (label or None, {(r,c): (colour, free)}, h, w)
        self.dev_color = {l: (0, 0, 0, 0) for l in self.pop}
        self._collect_defs(prog)
        try:
            self.block(prog)
        except _Return:
            raise RefUndefined('return outside a routine')
        except _Break:
            raise RefUndefined('break outside a loop')
        return self.events

    def _collect_defs(self, stmts):
        for s in stmts:
            if s[0] == 'define':
                self.routines[s[1]] = s
                self._collect_defs(s[3])
            elif s[0] == 'if':
                for _, body in s[1]:
                    self._collect_defs(body)
                if s[2]:
                    self._collect_defs(s[2])
            elif s[0] == 'repeat':
                self._collect_defs(s[2])

    def tick(self):
        self.steps += 1
        if self.steps > self.cap:
            raise RefCap()

    def block(self, stmts):
        for s in stmts:
            self.stmt(s)

    # ------------------------------------------------------------ names
    def lookup(self, name):
        if self.frames:
            f = self.frames[-1]
            if name in f.params:
                return f.params[name]
            if name in f.locals:
                return f.locals[name]
        if name in self.globals:
            return self.globals[name]
        raise RefUndefined('unset variable %r' % name)

    def store(self, name, value):
        if self.frames:
            f = self.frames[-1]
            if name in f.params:            # a parameter hides everything global of that name, macros too
                f.params[name] = value
                return
        if name in self.macros:
            raise RefUndefined('assignment to macro %r' % name)
        if self.frames:
            f = self.frames[-1]
            if name in f.params:
                f.params[name] = value
            elif name in f.locals:
                f.locals[name] = value
            elif name in self.globals:
                self.globals[name] = value
            else:
                f.locals[name] = value
        else:
            self.globals[name] = value

    # ------------------------------------------------------------ values
    def ev(self, e):
        k = e[0]
        if k == 'num' or k == 'str':
            return e[1]
        if k == 'pat':
            return ('pattern', pattern_set(e[1]))
        if k == 'var':
            v = self.lookup(e[1])
            if v is NOTHING:
                raise RefUndefined('use of a variable that holds the result of a call that returned nothing')
            return v
        if k == 'mac':
            if e[1] not in self.macros:
                raise RefUndefined('undefined macro %r' % e[1])
            return self.macros[e[1]]
        if k == 'reg':
            return self.regs[e[1]]
        if k == 'neg':
            return -self._num(self.ev(e[1]))
        if k == 'call':
            v = self.call(e[1], e[2])
            if v is NOTHING or v is None:
                raise RefUndefined('value of a call that returned nothing')
            return v
        if k == 'bin':
            op = e[1]
            a = self.ev(e[2])
            b = self.ev(e[3])
            if op in ('and', 'or'):
                a, b = self._truth(a), self._truth(b)
                return (a and b) if op == 'and' else (a or b)
            a, b = self._num(a), self._num(b)
            if op == '%' and (a < 0 or b < 0):
                raise RefUndefined('modulo with a negative operand (sign convention not documented)')
            if op == '^':
                if a < 0 and b != int(b):
                    raise RefUndefined('negative base with fractional exponent')
                if abs(b) > 16 or abs(a) > 1e6:
                    raise RefUndefined('power outside the guarded magnitude')
            try:
                if op == '+': return a + b
                if op == '-': return a - b
                if op == '*': return a * b
                if op == '/': return a / b
                if op == '%': return a % b
                if op == '^': return a ** b
            except ZeroDivisionError:
                raise RefUndefined('division by zero')
            except OverflowError:
                raise RefUndefined('overflow')
            if op == '<': return a < b
            if op == '<=': return a <= b
            if op == '>': return a > b
            if op == '>=': return a >= b
            if op == '==': return a == b
            if op == '!=': return a != b
        raise RefUndefined('value form %r' % (e,))

    @staticmethod
    def _num(v):
        if isinstance(v, (int, float)):      # bool is an int: truth values count as 1/0
            if isinstance(v, complex):
                raise RefUndefined('complex')
            return v
        raise RefUndefined('arithmetic on non-number %r' % (v,))

    @staticmethod
    def _truth(v):
        if isinstance(v, (bool, int, float)):
            return bool(v)
        raise RefUndefined('truth of %r' % (v,))

    def name_of(self, e):
        v = self.ev(e)
        if not isinstance(v, str):
            raise RefUndefined('light/group name is not a string: %r' % (v,))
        return v

    def int_of(self, e):
        v = self.ev(e)
        if isinstance(v, bool) or not isinstance(v, int):
            if isinstance(v, float) and v == int(v):
                return int(v)
            raise RefUndefined('index is not an integer: %r' % (v,))
        return v

    # ------------------------------------------------------------ calls
    def call(self, name, args):
        self.tick()
        if name in BUILTINS:
            vals = [self.ev(a) for a in args]
            return BUILTINS[name](*vals)
        if name not in self.routines:
            raise RefUndefined('unknown routine %r' % name)
        rt = self.routines[name]
        params = rt[2]
        if len(params) != len(args):
            raise RefUndefined('arity')
        # caller's scope, left to right; an argument may be the result of a call that returned nothing:
        # the parameter then exists (and hides a global) but holds no usable value
        vals = [self.call(a[1], a[2]) if a[0] == 'call' else self.ev(a) for a in args]
        if len(self.frames) > 40:
            raise RefCap()
        f = Frame(rt)
        for p, v in zip(params, vals):
            f.params[p] = v
        self.frames.append(f)
        saved_matrix_depth = None
        try:
            self.block(rt[3])
            result = NOTHING
        except _Return as r:
            result = r.value
        except _Break:
            raise RefUndefined('break leaves a routine')
        finally:
            self.frames.pop()
        return result

    # ------------------------------------------------------------ commands
    def pending_delay(self):
        t = self.regs['time']
        if isinstance(t, tuple) and t[0] == 'pattern':
            self.events.append(('wait_until', t[1]))
            return
        t = self._num(t)
        if t > 0:
            self.events.append(('wait', t / 1000.0 if self.mode == 'raw' else t))

    def colour(self):
        return U.color_raw(self.mode, self.regs)

    def duration(self):
        return U.duration_raw(self.mode, self._num(self.regs['duration']))

    def _note_color(self, label, col):
        self.dev_color[label] = tuple(int(round(c)) for c in col)

    def act(self, verb, operands):
        self.pending_delay()
        for o in operands:
            self.operand(verb, o)

    def operand(self, verb, o):
        k = o[0]
        if k == 'all':
            if verb == 'set':
                col, free = self.colour()
                self.events.append(('all', 'set_color', col, self.duration(), free))
                for l in self.pop:
                    self._note_color(l, col)
            else:
                self.events.append(('all', 'set_power', verb == 'on', self.duration()))
            return
        if k == 'light':
            self.one_light(verb, self.name_of(o[1]))
            return
        if k in ('group', 'location'):
            name = self.name_of(o[1])
            for l in self.members(k, name):
                self.one_light(verb, l)
            return
        if verb != 'set':
            raise RefUndefined('zone/matrix with on/off')
        if k == 'zone':
            label = self.name_of(o[1])
            a = self.int_of(o[2])
            b = self.int_of(o[3]) if o[3] is not None else a
            d = self.pop.get(label)
            if d is None or d.kind != 'strip':
                return
            if not (0 <= a <= b < d.zones):
                raise RefUndefined('zone range outside the strip or reversed')
            col, free = self.colour()
            self.events.append(('dev', label, 'set_zone_color', a, b + 1, col, self.duration(), free))
            return
        if k == 'matrix':
            label = self.name_of(o[1])
            d = self.pop.get(label)
            usable = d is not None and d.kind == 'matrix'
            self.begin_matrix(d if usable else None)
            self.stage(o[2], o[3])
            self.end_matrix(label if usable else None)
            return
        if k == 'block':
            label = self.name_of(o[1])
            d = self.pop.get(label)
            usable = d is not None and d.kind == 'matrix'
            self.begin_matrix(d if usable else None)
            self.block(o[2])
            self.end_matrix(label if usable else None)
            return
        raise RefUndefined('operand %r' % (o,))

    def one_light(self, verb, label):
        if label not in self.pop:
            return                      # logged, script continues
        if verb == 'set':
            col, free = self.colour()
            self.events.append(('dev', label, 'set_color', col, self.duration(), free))
            self._note_color(label, col)
        else:
            self.events.append(('dev', label, 'set_power', verb == 'on', self.duration()))

    # ------------------------------------------------------------ matrix
    def begin_matrix(self, dev):
        if self.matrix is not None:
            raise RefUndefined('nested matrix block')
        self.matrix = (dev, {})

    def stage(self, rows, cols):
        if self.matrix is None:
            raise RefUndefined('stage outside a matrix block')
        dev, cells = self.matrix
        if dev is None:
            # unusable target: evaluate ranges for their side effects only
            for r in (rows, cols):
                if r is not None:
                    self.int_of(r[0])
                    if r[1] is not None:
                        self.int_of(r[1])
            return
        rr = self._range(rows, dev.h)
        cc = self._range(cols, dev.w)
        col = self.colour()
        for r in range(rr[0], rr[1] + 1):
            for c in range(cc[0], cc[1] + 1):
                cells[(r, c)] = col

    def _range(self, r, extent):
        if r is None:
            return (0, extent - 1)
        a = self.int_of(r[0])
        b = self.int_of(r[1]) if r[1] is not None else a
        if not (0 <= a <= b < extent):
            raise RefUndefined('row/column range outside the matrix or reversed')
        return (a, b)

    def end_matrix(self, label):
        dev, cells = self.matrix
        self.matrix = None
        if dev is None:
            return
        fill = (self.default if self.default is not None
                else ((F(0), F(0), F(0), F(0)), ()))
        out = tuple(cells.get((r, c), fill) for r in range(dev.h) for c in range(dev.w))
        self.events.append(('dev', label, 'set_tile', out, self.duration()))

    # ------------------------------------------------------------ statements
    def stmt(self, s):
        self.tick()
        k = s[0]
        if k == 'setreg':
            self.regs[s[1]] = self.ev(s[2])
        elif k == 'units':
            self.units(s[1])
        elif k == 'act':
            self.act(s[1], s[2])
        elif k == 'setdefault':
            t = self.regs['time']
            if isinstance(t, tuple) or t != 0:
                raise RefUndefined('whether `set default` serves the pending delay is not documented')
            self.default = self.colour()
        elif k == 'stage':
            self.stage(s[1], s[2])
        elif k == 'get':
            label = self.name_of(s[1])
            d = self.pop.get(label)
            if d is None:
                return
            if d.kind != 'plain':
                raise RefUndefined('get on a multi-colour light')
            self.events.append(('dev', label, 'get_color'))
            self.load_color(self.dev_color[label])
        elif k == 'wait':
            self.pending_delay()
        elif k == 'time_at':
            sets = []
            for p in s[1]:
                v = self.ev(p)
                if not (isinstance(v, tuple) and v[0] == 'pattern'):
                    raise RefUndefined('time at non-pattern')
                sets.append(v[1])
            self.regs['time'] = ('pattern', frozenset().union(*sets))
        elif k == 'assign':
            self.store(s[1], self.ev(s[2]))
        elif k == 'defmacro':
            if s[1] in self.macros:
                raise RefUndefined('macro redefined')
            self.macros[s[1]] = self.ev(s[2])
        elif k == 'define':
            pass
        elif k == 'callst':
            self.call(s[1], s[2])
        elif k == 'return':
            if not self.frames:
                raise RefUndefined('return at top level')
            raise _Return(self.ev(s[1]) if s[1] is not None else NOTHING)
        elif k == 'if':
            for cond, body in s[1]:
                if self._truth(self.ev(cond)):
                    self.block(body)
                    return
            if s[2] is not None:
                self.block(s[2])
        elif k == 'repeat':
            try:
                self.repeat(s[1], s[2])
            except _Break:
                pass
        elif k == 'break':
            raise _Break()
        elif k == 'print':
            if s[1] is not None:
                self.events.append(('out', self.ev(s[1])))
        elif k == 'println':
            if s[1] is not None:
                self.events.append(('out', self.ev(s[1])))
            self.events.append(('nl',))
        elif k == 'printf':
            self.printf(s[1], s[2])
        else:
            raise RefUndefined('statement %r' % (s,))

    def printf(self, fmt, args):
        import string
        vals = [self.ev(a) for a in args]
        named = {}
        for _, fname, _, _ in string.Formatter().parse(fmt):
            if fname and not fname.isdecimal():
                base = re.split(r'[.\[]', fname)[0]
                if base in self.regs:
                    named[base] = self.regs[base]
                else:
                    named[base] = self.lookup(base)
        try:
            text = fmt.replace('\\n', '\n').format(*vals, **named)
        except Exception as ex:
            raise RefUndefined('str.format rejects this: %r' % (ex,))
        self.events.append(('out', text, 'f'))

    def load_color(self, raw):
        h, s, b, k = raw
        if self.mode == 'raw':
            self.regs.update(hue=h, saturation=s, brightness=b, kelvin=k)
        elif self.mode == 'logical':
            self.regs.update(hue=h / 65535.0 * 360.0, saturation=s / 65535.0 * 100.0,
                             brightness=b / 65535.0 * 100.0, kelvin=k)
        else:
            import colorsys
            r, g, bl = colorsys.hsv_to_rgb(h / 65535.0, s / 65535.0, b / 65535.0)
            self.regs.update(red=r * 100.0, green=g * 100.0, blue=bl * 100.0, kelvin=k)

    # ------------------------------------------------------------ units
    def units(self, to):
        frm = self.mode
        if frm == to:
            return
        t = self.regs['time']
        if 'raw' in (frm, to) and not (isinstance(t, tuple)):
            if to == 'raw':
                self.regs['time'] = self._num(t) * 1000.0
                self.regs['duration'] = self._num(self.regs['duration']) * 1000.0
            else:
                self.regs['time'] = self._num(t) / 1000.0
                self.regs['duration'] = self._num(self.regs['duration']) / 1000.0
        elif 'raw' in (frm, to):
            if to == 'raw':
                self.regs['duration'] = self._num(self.regs['duration']) * 1000.0
            else:
                self.regs['duration'] = self._num(self.regs['duration']) / 1000.0
        # the colour is re-expressed so that what a `set` transmits is unchanged
        col, free = U.color_raw(frm, self.regs)       # exact raw value of the current colour
        h, s, b, k = (float(c) for c in col)
        self.mode = to
        if to == 'raw':
            self.regs.update(hue=h, saturation=s, brightness=b)
        elif to == 'logical':
            self.regs.update(hue=h / 65535.0 * 360.0, saturation=s / 65535.0 * 100.0,
                             brightness=b / 65535.0 * 100.0)
        else:
            import colorsys
            r, g, bl = colorsys.hsv_to_rgb(h / 65535.0, s / 65535.0, b / 65535.0)
            self.regs.update(red=r * 100.0, green=g * 100.0, blue=bl * 100.0)

    # ------------------------------------------------------------ loops
    def repeat(self, spec, body):
        k = spec[0]
        if k == 'forever':
            while True:
                self.tick()
                self.block(body)
        elif k == 'while':
            while self._truth(self.ev(spec[1])):
                self.tick()
                self.block(body)
        elif k == 'count':
            n = self._count(spec[1])
            for _ in range(n):
                self.tick()
                self.block(body)
        elif k == 'range':
            a, b = self.int_of(spec[2]), self.int_of(spec[3])
            step = 1 if b >= a else -1
            for v in range(a, b + step, step):
                self.tick()
                self.store(spec[1], v)
                self.block(body)
        elif k == 'interp':
            n = self._count(spec[1])
            a, b = self._num(self.ev(spec[3])), self._num(self.ev(spec[4]))
            self._interp(n, spec[2], a, b, None, body)
        elif k == 'cycle':
            n = self._count(spec[1])
            s = self._num(self.ev(spec[3])) if spec[3] is not None else 0
            self._cycle(n, spec[2], s, None, body)
        elif k in ('all', 'groups', 'locations', 'in'):
            if k == 'all':
                names, lv, w = self.lights(), spec[1], spec[2]
            elif k == 'groups':
                names, lv, w = self.groups(), spec[1], spec[2]
            elif k == 'locations':
                names, lv, w = self.locations(), spec[1], spec[2]
            else:
                names = []
                for src in spec[1]:
                    nm = self.name_of(src[1])
                    if src[0] == 'light':
                        names.append(nm)
                    else:
                        names += self.members(src[0], nm)
                lv, w = spec[2], spec[3]
            binder = (lv, names)
            if w is None:
                for nm in names:
                    self.tick()
                    self.store(lv, nm)
                    self.block(body)
            elif w[0] == 'from':
                a, b = self._num(self.ev(w[2])), self._num(self.ev(w[3]))
                self._interp(len(names), w[1], a, b, binder, body)
            else:
                s = self._num(self.ev(w[2])) if w[2] is not None else 0
                self._cycle(len(names), w[1], s, binder, body)
        else:
            raise RefUndefined('repeat %r' % (spec,))

    def _count(self, e):
        n = self.ev(e)
        if isinstance(n, bool) or not isinstance(n, int) or n < 0:
            if isinstance(n, float) and n == int(n) and n >= 0:
                return int(n)
            raise RefUndefined('loop count %r' % (n,))
        return n

    def _interp(self, n, var, a, b, binder, body):
        for i in range(n):
            self.tick()
            v = a if (n == 1 or i == 0) else a + i * (b - a) / (n - 1)
            if binder:
                self.store(binder[0], binder[1][i])
            self.store(var, v)
            self.block(body)

    def _cycle(self, n, var, s, binder, body):
        turn = 65536 if self.mode == 'raw' else 360
        for i in range(n):
            self.tick()
            if binder:
                self.store(binder[0], binder[1][i])
            self.store(var, s if i == 0 else s + i * turn / n)
            self.block(body)


# ---------------------------------------------------------------- built-ins
import math as _m


def _b_sqrt(x):
    if x < 0:
        raise RefUndefined('sqrt of a negative (manual and its table disagree)')
    return _m.sqrt(x)


def _b_cycle(t):
    return t % 360 if not (0 <= t < 360) else t


BUILTINS = {
    'round': lambda x: round(x),
    'trunc': lambda x: _m.trunc(x),
    'floor': lambda x: _m.floor(x),
    'ceil': lambda x: _m.ceil(x),
    'sqrt': _b_sqrt,
    'sin': lambda x: _m.sin(_m.radians(x)),
    'cos': lambda x: _m.cos(_m.radians(x)),
    'tan': lambda x: _m.tan(_m.radians(x)),
    'asin': lambda x: _m.degrees(_m.asin(x)),
    'acos': lambda x: _m.degrees(_m.acos(x)),
    'atan': lambda x: _m.degrees(_m.atan(x)),
    'cycle': _b_cycle,
}
