"""Slice K: control skeletons.  Atoms are unique markers (`print <id>`).

Every program with <= N statement nodes over:
  marker | if c S | if c S else S | if c S else if c S else S
  | repeat n S (n in 0,1,2) | repeat with i from 1 to 2 / 2 to 1 S
  | repeat while (two passes via a counted-down variable, or zero passes)
  | break | return | call f / [f] | define f S  (top level, any position)
Conditions: {1}, {0}, and {i == 1} on the innermost range-loop variable.
Enumeration is deterministic and ordered by size (simplest first).
"""
from functools import lru_cache

T = ('num', 1)
Fa = ('num', 0)


def _conds(ctx):
    cs = [T, Fa]
    if ctx[3] is not None and not ctx[5]:
        cs.append(('bin', '==', ('var', ctx[3]), ('num', 1)))
    return cs


# ctx = (in_loop, in_routine, callable(tuple), loopvar, depth, extended)
@lru_cache(maxsize=None)
def blocks(n, ctx):
    """all statement tuples of total cost exactly n (n >= 1)"""
    out = []
    for first in range(1, n + 1):
        for s in stmts(first, ctx):
            if first == n:
                out.append((s,))
            else:
                # nothing after an unconditional break/return: unreachable code adds nothing
                if s[0] in ('break', 'return'):
                    continue
                for rest in blocks(n - first, ctx):
                    out.append((s,) + rest)
    return tuple(out)


@lru_cache(maxsize=None)
def stmts(n, ctx):
    in_loop, in_routine, callables, loopvar, depth, ext = ctx
    out = []
    if n == 1:
        if ext == 2 and depth < 4:
            # empty blocks: `if c begin end`, `if c S else begin end` is cost 2 below, empty loop body
            out.append(('if', ((T, ()),), None))
            out.append(('repeat', ('count', ('num', 2)), ()))
        out.append(('M',))
        if in_loop:
            out.append(('break',))
        if in_routine:
            out.append(('return', None))
        for f in callables:
            out.append(('callst', f, (), False))
            out.append(('callst', f, (), True))
        if ext:
            out.append(('callst', 'f', (), False))
        if ext == 2:
            # a row/column command: its code ends in `END matrix`, the other user of the END op-code
            out.append(('act', 'set', (('matrix', ('str', 'm'), (('num', 0), None), None),)))
            # a macro definition: a CONSTANT instruction in any statement position, inside routine bodies too
            out.append(('K',))
        return tuple(out)
    if depth >= 4:
        return ()
    sub = (in_loop, in_routine, callables, loopvar, depth + 1, ext)
    body_n = n - 1
    if ext == 2:
        for c in (T, Fa):
            for b in blocks(body_n, sub):
                out.append(('if', ((c, b),), ()))          # else begin end
                out.append(('if', ((c, ()),), b))          # if c begin end else B
    # if c B
    for c in _conds(ctx):
        for b in blocks(body_n, sub):
            out.append(('if', ((c, b),), None))
    # if c B else B ; if c B else if c B else B
    for c in _conds(ctx):
        for k in range(1, body_n):
            for b1 in blocks(k, sub):
                for b2 in blocks(body_n - k, sub):
                    out.append(('if', ((c, b1),), b2))
    if body_n >= 3:
        for c1 in (T, Fa):
            for c2 in (T, Fa):
                for k1 in range(1, body_n - 1):
                    for k2 in range(1, body_n - k1):
                        k3 = body_n - k1 - k2
                        for b1 in blocks(k1, sub):
                            for b2 in blocks(k2, sub):
                                for b3 in blocks(k3, sub):
                                    out.append(('if', ((c1, b1), (c2, b2)), b3))
    # loops
    lsub = (True, in_routine, callables, loopvar, depth + 1, ext)
    for cnt in (0, 1, 2):
        for b in blocks(body_n, lsub):
            out.append(('repeat', ('count', ('num', cnt)), b))
    # loop variables of routine bodies get their own names: a routine's loop over a name that is also a
    # caller's (global) loop variable would overwrite it, and the manual does not say what the caller's loop then does
    var = ('j%d' if in_routine else 'i%d') % depth
    rsub = (True, in_routine, callables, var, depth + 1, ext)
    for a, bnd in ((1, 2), (2, 1)):
        for b in blocks(body_n, rsub):
            out.append(('repeat', ('range', var, ('num', a), ('num', bnd)), b))
    for b in blocks(body_n, lsub):
        out.append(('repeat', ('while', Fa), b))
    if ext:
        for b in blocks(body_n, lsub):
            out.append(('repeat', ('all', 'l%d' % depth, None), b))
            out.append(('repeat', ('forever',), b))
            if ext == 2:
                # iteration over the group names: its code is emitted by a different generator path
                out.append(('repeat', ('groups', 'g%d' % depth, None), b))
        if not in_routine:
            rctx = (False, True, callables, None, depth + 1, ext)
            for b in blocks(body_n, rctx):
                out.append(('define', 'f', (), b))
    if body_n >= 2:
        w = 'w%d' % depth
        for b in blocks(body_n - 1, lsub):
            out.append(('WHILE2', w, b))
    return tuple(out)


def _expand(s, counter):
    """Replace markers by numbered prints and WHILE2 by its two statements."""
    k = s[0]
    if k == 'M':
        counter[0] += 1
        return [('print', ('num', counter[0]))]
    if k == 'K':
        counter[0] += 1
        return [('defmacro', 'k%d' % counter[0], ('num', counter[0]))]
    if k == 'if':
        branches = tuple((c, _expand_block(b, counter)) for c, b in s[1])
        els = _expand_block(s[2], counter) if s[2] is not None else None
        return [('if', branches, els)]
    if k == 'repeat':
        return [('repeat', s[1], _expand_block(s[2], counter))]
    if k == 'WHILE2':
        w = s[1]
        dec = ('assign', w, ('bin', '-', ('var', w), ('num', 1)))
        body = (dec,) + _expand_block(s[2], counter)
        return [('assign', w, ('num', 2)),
                ('repeat', ('while', ('bin', '>', ('var', w), ('num', 0))), body)]
    if k == 'define':
        counter.append('d')                                   # the second definition of a program is g
        name = s[1] if counter.count('d') == 1 else 'g'
        return [('define', name, s[2], _expand_block(s[3], counter))]
    return [s]


def _expand_block(b, counter):
    out = []
    for s in b:
        out += _expand(s, counter)
    return tuple(out)


def programs(max_nodes, routines=True, extended=False):
    """Yields (size, program AST) simplest first.

    Skipped: a bare `return` directly followed by a bracketed call -- the
    grammar reads `return [f]` as returning f's value, and the manual does not
    say which reading is meant (DESIGN.md section 4)."""
    from . import render
    for n, prog in _programs(max_nodes, routines, extended):
        toks = render.program_tokens(prog)
        if any(t == 'return' and toks[i + 1:i + 2] == ['['] for i, t in enumerate(toks)):
            continue
        yield n, prog


def _programs(max_nodes, routines=True, extended=False):
    top = (False, False, (), None, 0, extended)
    for n in range(1, max_nodes + 1):
        # programs without a routine
        for b in blocks(n, top):
            yield n, _expand_block(b, [0])
        if not routines:
            continue
        # one routine f (cost 1 + body) defined at every top-level position,
        # called only after its definition
        for body_n in range(1, n - 1):
            rest_n = n - 1 - body_n
            if rest_n < 1:
                continue
            rctx = (False, True, (), None, 1, extended)
            for fb in blocks(body_n, rctx):
                d = ('define', 'f', (), fb)
                for pre_n in range(0, rest_n):
                    post_n = rest_n - pre_n
                    pres = blocks(pre_n, top) if pre_n else ((),)
                    after_ctx = (False, False, ('f',), None, 0, extended)
                    for pre in pres:
                        for post in blocks(post_n, after_ctx):
                            if not _calls(post):
                                continue
                            yield n, _expand_block(pre + (d,) + post, [0])


def _calls(block):
    for s in block:
        if s[0] == 'callst':
            return True
        if s[0] == 'if':
            if any(_calls(b) for _, b in s[1]) or (s[2] is not None and _calls(s[2])):
                return True
        if s[0] in ('repeat',):
            if _calls(s[2]):
                return True
        if s[0] == 'WHILE2' and _calls(s[2]):
            return True
    return False


def _walk(block, ev):
    for s in block:
        k = s[0]
        if k == 'define':
            ev.append('D')
            _walk(s[3], ev)
            ev.append('E')
        elif k == 'callst':
            ev.append('c')
        elif k == 'if':
            for _, b in s[1]:
                _walk(b, ev)
            if s[2] is not None:
                _walk(s[2], ev)
        elif k == 'repeat' or k == 'WHILE2':
            _walk(s[2], ev)


def extended_programs(max_nodes, rich_nodes=4):
    """Control skeletons with a routine definition in *every* statement position
    the grammar has (inside if and repeat bodies too), every loop kind (incl.
    light iteration and `repeat` forever) around break, return at every depth.
    Valid = at most two definitions (the first is f, the second g; only f is called), every call textually
    after f's end."""
    from . import render
    for n in range(1, max_nodes + 1):
        # the rich alphabet (empty blocks, a row/column command) up to rich_nodes, the plain one above
        top = (False, False, (), None, 0, 2 if n <= rich_nodes else 1)
        for b in blocks(n, top):
            ev = []
            _walk(b, ev)
            if ev.count('D') > 2:
                continue
            if 'c' in ev and ('E' not in ev or ev.index('c') < ev.index('E')):
                continue
            prog = _expand_block(b, [0])
            toks = render.program_tokens(prog)
            if any(t == 'return' and toks[i + 1:i + 2] == ['['] for i, t in enumerate(toks)):
                continue
            yield n, prog
