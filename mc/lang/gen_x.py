"""Slice X: commands inside control, with operands and register values that
come from loop variables, parameters and return values."""
import itertools

N = lambda v: ('num', v)
S = lambda s: ('str', s)
V = lambda n: ('var', n)


def commands(b, pop):
    """commands available under bindings b = (light var, group var, number var)"""
    lv, gv, nv = b
    labels = sorted(d.label for d in pop)
    a = labels[0] if labels else 'a'
    out = [('act', 'on', (('light', S(a)),)), ('act', 'set', (('all',),)),
           ('setreg', 'hue', N(120)), ('setreg', 'time', N(1)), ('wait',),
           ('act', 'off', (('group', S('g')),))]
    if lv:
        out += [('act', 'set', (('light', V(lv)),)), ('act', 'off', (('light', V(lv)), ('light', S(a)))),
                ('print', V(lv)), ('get', V(lv))]
    if gv:
        out += [('act', 'on', (('group', V(gv)),)), ('print', V(gv))]
    if nv:
        out += [('setreg', 'hue', V(nv)), ('setreg', 'brightness', ('bin', '/', V(nv), N(2))),
                ('print', V(nv)), ('setreg', 'duration', V(nv))]
    return out


def contexts(depth, pop):
    """(wrap(body) -> (prefix stmts, stmt), new bindings) for each control context"""
    d = str(depth)
    labels = sorted(x.label for x in pop)
    a = labels[0] if labels else 'a'
    plain_only = all(x.kind == 'plain' for x in pop)
    cs = []
    cs.append((lambda body: ((), ('if', ((N(1), body),), None)), (None, None, None)))
    cs.append((lambda body: ((), ('if', ((N(0), (('act', 'on', (('all',),)),)),), body)), (None, None, None)))
    cs.append((lambda body: ((), ('repeat', ('count', N(2)), body)), (None, None, None)))
    if plain_only:
        cs.append((lambda body: ((), ('repeat', ('all', 'l' + d, None), body)), ('l' + d, None, None)))
        cs.append((lambda body: ((), ('repeat', ('all', 'l' + d, ('from', 'v' + d, N(10), N(30))), body)),
                   ('l' + d, None, 'v' + d)))
        cs.append((lambda body: ((), ('repeat', ('in', (('group', S('g')), ('light', S(a))), 'l' + d,
                                                 ('cycle', 'v' + d, None)), body)), ('l' + d, None, 'v' + d)))
        cs.append((lambda body: ((), ('repeat', ('in', (('location', S('q')),), 'l' + d, None), body)),
                   ('l' + d, None, None)))
    cs.append((lambda body: ((), ('repeat', ('groups', 'g' + d, None), body)), (None, 'g' + d, None)))
    cs.append((lambda body: ((), ('repeat', ('interp', N(3), 'v' + d, N(0), N(100)), body)), (None, None, 'v' + d)))
    cs.append((lambda body: ((), ('repeat', ('cycle', N(2), 'v' + d, N(45)), body)), (None, None, 'v' + d)))
    cs.append((lambda body: ((), ('repeat', ('range', 'v' + d, N(2), N(1)), body)), (None, None, 'v' + d)))
    if depth == 0:
        cs.append((lambda body: ((('define', 'f', ('pl',), body),), ('callst', 'f', (S(a),), False)),
                   ('pl', None, None)))
        cs.append((lambda body: ((('define', 'f', ('pn',), body),), ('callst', 'f', (N(60),), True)),
                   (None, None, 'pn')))
        cs.append((lambda body: ((('define', 'nm', (), (('return', S(a)),)),
                                  ('define', 'f', ('pl', 'pn'), body)),
                                 ('callst', 'f', (('call', 'nm', ()), ('bin', '*', N(2), N(15))), False)),
                   ('pl', None, 'pn')))
    return cs


def _merge(b1, b2):
    return tuple(y if y is not None else x for x, y in zip(b1, b2))


def programs(max_nodes, pop):
    """depth-1 contexts with bodies of 1..2 commands; depth-2 nestings with
    bodies of 1 (max_nodes 3) or 1..2 (max_nodes 4) commands."""
    base = (None, None, None)
    for wrap, b in contexts(0, pop):
        cmds = commands(b, pop)
        bodies = [(c,) for c in cmds] + [(c1, c2) for c1 in cmds for c2 in cmds]
        for body in bodies:
            pre, st = wrap(body)
            yield 1 + len(body), tuple(pre) + (st,)
    for wrap0, b0 in contexts(0, pop):
        for wrap1, b1 in contexts(1, pop):
            b = _merge(b0, b1)
            cmds = commands(b, pop)
            bodies = [(c,) for c in cmds]
            if max_nodes >= 4:
                bodies += [(c1, c2) for c1 in cmds for c2 in cmds]
            for body in bodies:
                _, inner = wrap1(body)
                for extra in ((), (('print', N(9)),)):
                    pre, st = wrap0((inner,) + extra)
                    yield 2 + len(body) + len(extra), tuple(pre) + (st,)
