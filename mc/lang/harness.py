"""Run one AST through the reference and through the real compiler+VM and compare."""
import signal
import threading

from . import compare, ref as refmod, render

TIME_LIMIT_S = 20          # per program: compile + run normally take about a millisecond


class TooLong(BaseException):
    pass


def _alarm(signum, frame):
    raise TooLong()


def limited(fn, *a, **k):
    """Run fn under the per-program time limit (main thread only); raises TooLong."""
    if threading.current_thread() is not threading.main_thread():
        return fn(*a, **k)
    old = signal.signal(signal.SIGALRM, _alarm)
    signal.setitimer(signal.ITIMER_REAL, TIME_LIMIT_S)
    try:
        return fn(*a, **k)
    finally:
        signal.setitimer(signal.ITIMER_REAL, 0)
        signal.signal(signal.SIGALRM, old)


class Outcome:
    __slots__ = ('status', 'detail', 'text', 'trace', 'ref', 'steps')

    def __init__(self, status, detail=None, text=None, trace=None, ref=None, steps=0):
        self.status, self.detail, self.text, self.trace, self.ref, self.steps = \
            status, detail, text, trace, ref, steps


_dnf = [0]      # programs that did not finish, in this process


def run_ast(world, prog, cap=5000, text=None, ref_cap=20000):
    """status in: ok | undefined | refcap | rejected | crash | abort | capped | mismatch | does-not-finish"""
    text = text if text is not None else render.render(prog)
    r = refmod.Ref(world.population, cap=ref_cap)
    try:
        want = r.run(prog)
    except refmod.RefUndefined as ex:
        return Outcome('undefined', str(ex), text)
    except refmod.RefCap:
        return Outcome('refcap', None, text)
    if _dnf[0] >= 3:
        # non-termination has been reported three times by this worker; do not spend hours on the rest
        return Outcome('undefined', 'skipped after repeated non-termination', text)
    world.reset()
    try:
        res = limited(world.run_script, text, cap)
    except TooLong:
        _dnf[0] += 1
        return Outcome('does-not-finish', 'no result within %d s' % TIME_LIMIT_S, text)
    if res.raised and 'TooLong' in str(res.raised):
        _dnf[0] += 1
        return Outcome('does-not-finish', 'no result within %d s' % TIME_LIMIT_S, text)
    if res.accepted is None:
        return Outcome('crash', res.raised, text)
    if not res.accepted:
        return Outcome('rejected', res.errors, text)
    if res.raised:
        return Outcome('crash', res.raised, text, res.trace, want, res.steps)
    if res.abort:
        return Outcome('abort', res.abort, text, res.trace, want, res.steps)
    if res.capped:
        return Outcome('capped', None, text, res.trace, want, res.steps)
    d = compare.diff(want, res.trace)
    if d is not None:
        return Outcome('mismatch', d, text, res.trace, want, res.steps)
    return Outcome('ok', None, text, res.trace, want, res.steps)
