"""Compare a reference event trace (lang/ref.py) with an observed one (simnet)."""
import math
from fractions import Fraction as F

TIE = F(1, 2) + F(1, 10 ** 6)
ON = (True, 1, 'on', 65535)
OFF = (False, 0, 'off')


def int_ok(got, exact, lo=0, hi=65535):
    if isinstance(got, bool) or not isinstance(got, int):
        return False
    if not (lo <= got <= hi):
        return False
    return abs(got - exact) <= TIE


def color_ok(got, exact, free=()):
    if len(got) != 4:
        return False
    for i in range(4):
        if i in free:
            if isinstance(got[i], bool) or not isinstance(got[i], int) or not (0 <= got[i] <= 65535):
                return False
            continue
        if not int_ok(got[i], exact[i]):
            # hue 65535 and 0 are the same angle only through `get`; on the wire a
            # hue of exactly 65535 (raw) is legal, so no wrap here.
            return False
    return True


def dur_ok(got, exact):
    return int_ok(got, exact, 0, 2 ** 32 - 1)


def num_ok(got, want, rel=1e-9):
    if isinstance(want, bool) or isinstance(got, bool):
        return isinstance(want, bool) and isinstance(got, bool) and want == got
    if isinstance(want, (int, float)) and isinstance(got, (int, float)):
        return math.isclose(got, want, rel_tol=rel, abs_tol=1e-9)
    return type(got) is type(want) and got == want


def power_ok(got, want_on):
    if any(got is v or (got == v and type(got) is type(v)) for v in ON):
        return want_on
    if any(got is v or (got == v and type(got) is type(v)) for v in OFF):
        return not want_on
    return False


def event_ok(r, o):
    if r[0] != o[0]:
        return False
    k = r[0]
    if k == 'wait':
        return isinstance(o[1], (int, float)) and math.isclose(o[1], r[1], rel_tol=1e-9, abs_tol=1e-12)
    if k == 'wait_until':
        return o[1] == r[1]
    if k == 'out':
        return num_ok(o[1], r[1])
    if k == 'nl':
        return True
    if k == 'all':
        if r[1] != o[1]:
            return False
        if r[1] == 'set_color':
            return color_ok(o[2], r[2], r[4]) and dur_ok(o[3], r[3])
        return power_ok(o[2], r[2]) and dur_ok(o[3], r[3])
    if k == 'dev':
        if r[1] != o[1] or r[2] != o[2]:
            return False
        op = r[2]
        if op == 'set_color':
            return color_ok(o[3], r[3], r[5]) and dur_ok(o[4], r[4])
        if op == 'set_power':
            return power_ok(o[3], r[3]) and dur_ok(o[4], r[4])
        if op == 'set_zone_color':
            return (o[3] == r[3] and o[4] == r[4] and type(o[3]) is int and type(o[4]) is int
                    and color_ok(o[5], r[5], r[7]) and dur_ok(o[6], r[6]))
        if op == 'set_tile':
            cells = r[3]
            if len(o[3]) < len(cells):
                return False
            for got, (exact, free) in zip(o[3], cells):
                if got is None or not color_ok(got, exact, free):
                    return False
            return dur_ok(o[4], r[4])
        if op == 'get_color':
            return True
    return False


def diff(ref_events, observed):
    """None if the traces agree, else (index, expected, got)."""
    obs = [e for e in observed if e[0] != 'flush']
    for i, r in enumerate(ref_events):
        if i >= len(obs):
            return (i, show(r), None)
        if not event_ok(r, obs[i]):
            return (i, show(r), obs[i])
    if len(obs) > len(ref_events):
        return (len(ref_events), None, obs[len(ref_events)])
    return None


def show(e):
    def f(x):
        if isinstance(x, F):
            return float(x)
        if isinstance(x, (tuple, list)):
            return tuple(f(i) for i in x)
        if isinstance(x, frozenset):
            return 'set(%d)' % len(x)
        return x
    return f(e)
