"""Slice V: commands and values.  All sequences of <= N statements over an
alphabet of register settings (incl. 0, fractional, out-of-range), units,
set/on/off with every operand kind, wait, time at, get, assign, print — after a
fixed prelude binding a macro and variables to names (so that variable and
macro operands always compile)."""
import itertools

N = lambda v: ('num', v)
S = lambda s: ('str', s)


def alphabet(pop):
    labels = sorted(d.label for d in pop)
    groups = sorted({d.group for d in pop})
    locs = sorted({d.location for d in pop})
    a = labels[0] if labels else 'a'
    b = labels[1] if len(labels) > 1 else 'zz'
    g = groups[0] if groups else 'g'
    loc = locs[-1] if locs else 'q'
    strip = next((d for d in pop if d.kind == 'strip'), None)
    mat = next((d for d in pop if d.kind == 'matrix'), None)
    prelude = (('defmacro', 'mn', S(a)), ('assign', 'vg', S(g)), ('assign', 'vl', S(b)),
               ('assign', 'x', N(7)))
    out = []
    for reg, vals in (('hue', (0, 120.5, 400)), ('saturation', (0, 50, 150)),
                      ('brightness', (100, 75.5, -5)), ('kelvin', (2700, 70000)),
                      ('duration', (0, 1.5, 2)), ('time', (0, 0.5, 2)),
                      ('red', (100,)), ('green', (50,)), ('blue', (25,))):
        for v in vals:
            out.append(('setreg', reg, N(v)))
    out.append(('setreg', 'hue', ('var', 'x')))
    for m in ('logical', 'raw', 'rgb'):
        out.append(('units', m))
    common = [(('all',),), (('light', S(a)),), (('light', S('zz')),), (('group', S(g)),),
              (('group', S('zz')),), (('location', S(loc)),),
              (('light', S(a)), ('light', S(b))), (('light', S(b)), ('group', S(g))),
              (('light', ('mac', 'mn')),), (('group', ('var', 'vg')),), (('light', ('var', 'vl')),)]
    for verb in ('set', 'on', 'off'):
        for ops in common:
            out.append(('act', verb, ops))
    if strip is not None:
        out.append(('act', 'set', (('zone', S(strip.label), N(1), N(3)),)))
        out.append(('act', 'set', (('zone', S(strip.label), N(2), None), ('light', S(a)))))
        out.append(('act', 'set', (('light', S(strip.label)),)))
    if mat is not None:
        out.append(('act', 'set', (('matrix', S(mat.label), (N(0), None), (N(1), N(2))),)))
        out.append(('act', 'set', (('light', S(mat.label)),)))
    if labels:
        out.append(('act', 'set', (('zone', S(a), N(0), None),)))      # capability mismatch: ignored
    out.append(('wait',))
    out.append(('time_at', (('pat', '8:00'),)))
    out.append(('time_at', (('pat', '*:15'), ('pat', '9:3*'))))
    plain = next((d.label for d in pop if d.kind == 'plain'), None)
    if plain:
        out.append(('get', S(plain)))
    out.append(('get', S('zz')))
    out.append(('assign', 'x', ('reg', 'hue')))
    out.append(('print', ('reg', 'hue')))
    out.append(('print', ('reg', 'duration')))
    return prelude, out


def _ok(seq):
    """Exclude shapes the reference leaves undefined (see DESIGN.md section 4)."""
    for i, s in enumerate(seq):
        if s[0] == 'print' and i + 1 < len(seq) and seq[i + 1][0] == 'setreg':
            pass    # `print hue  saturation 5` is unambiguous: print takes exactly one value
    return True


def programs(max_len, pop):
    prelude, alpha = alphabet(pop)
    for n in range(1, max_len + 1):
        for seq in itertools.product(alpha, repeat=n):
            yield n, prelude + seq
