"""Compile-time name rule of the language, used by generators as a filter:
a variable may be read only if an assignment, parameter or loop clause naming
it appears textually earlier in the same routine, or earlier at top level."""


def reads_ok(prog):
    glob = set()
    macros = set()

    def expr_ok(e, scope):
        k = e[0]
        if k == 'var':
            return e[1] in scope or e[1] in glob
        if k == 'mac':
            return e[1] in macros
        if k == 'neg':
            return expr_ok(e[1], scope)
        if k == 'bin':
            return expr_ok(e[2], scope) and expr_ok(e[3], scope)
        if k == 'call':
            return all(expr_ok(a, scope) for a in e[2])
        return True

    def block_ok(stmts, scope, top):
        for s in stmts:
            if not stmt_ok(s, scope, top):
                return False
        return True

    def define(name, scope, top):
        (glob if top else scope).add(name)

    def rng_ok(r, scope):
        return r is None or (expr_ok(r[0], scope) and (r[1] is None or expr_ok(r[1], scope)))

    def stmt_ok(s, scope, top):
        k = s[0]
        if k in ('setreg', 'assign', 'defmacro'):
            if not expr_ok(s[2], scope):
                return False
            if k == 'assign':
                define(s[1], scope, top)
            if k == 'defmacro':
                macros.add(s[1])
            return True
        if k in ('get', 'print', 'println', 'return'):
            return s[1] is None or expr_ok(s[1], scope)
        if k == 'printf':
            return all(expr_ok(a, scope) for a in s[2])
        if k == 'callst':
            return all(expr_ok(a, scope) for a in s[2])
        if k == 'act':
            for o in s[2]:
                if o[0] in ('light', 'group', 'location') and not expr_ok(o[1], scope):
                    return False
                if o[0] == 'zone' and not (expr_ok(o[1], scope) and expr_ok(o[2], scope)
                                           and (o[3] is None or expr_ok(o[3], scope))):
                    return False
                if o[0] == 'matrix' and not (expr_ok(o[1], scope) and rng_ok(o[2], scope) and rng_ok(o[3], scope)):
                    return False
                if o[0] == 'block' and not (expr_ok(o[1], scope) and block_ok(o[2], scope, top)):
                    return False
            return True
        if k == 'stage':
            return rng_ok(s[1], scope) and rng_ok(s[2], scope)
        if k == 'if':
            for c, b in s[1]:
                if not expr_ok(c, scope) or not block_ok(b, scope, top):
                    return False
            return s[2] is None or block_ok(s[2], scope, top)
        if k == 'define':
            return block_ok(s[3], set(s[2]), False)
        if k == 'repeat':
            spec = s[1]
            kind = spec[0]
            w = None
            if kind == 'while':
                if not expr_ok(spec[1], scope):
                    return False
            elif kind == 'count':
                if not expr_ok(spec[1], scope):
                    return False
            elif kind == 'range':
                if not (expr_ok(spec[2], scope) and expr_ok(spec[3], scope)):
                    return False
                define(spec[1], scope, top)
            elif kind == 'interp':
                if not (expr_ok(spec[1], scope) and expr_ok(spec[3], scope) and expr_ok(spec[4], scope)):
                    return False
                define(spec[2], scope, top)
            elif kind == 'cycle':
                if not (expr_ok(spec[1], scope) and (spec[3] is None or expr_ok(spec[3], scope))):
                    return False
                define(spec[2], scope, top)
            elif kind in ('all', 'groups', 'locations'):
                define(spec[1], scope, top)
                w = spec[2]
            elif kind == 'in':
                for src in spec[1]:
                    if not expr_ok(src[1], scope):
                        return False
                define(spec[2], scope, top)
                w = spec[3]
            if w is not None:
                if w[0] == 'from':
                    if not (expr_ok(w[2], scope) and expr_ok(w[3], scope)):
                        return False
                elif w[2] is not None and not expr_ok(w[2], scope):
                    return False
                define(w[1], scope, top)
            return block_ok(s[2], scope, top)
        return True

    return block_ok(prog, set(), True)
