"""Programs for C15: zone ranges and stage rectangles."""
import itertools

N = lambda v: ('num', v)
S = lambda s: ('str', s)
V = lambda n: ('var', n)

COLORS = {
    'logical': (('setreg', 'hue', N(120.6)), ('setreg', 'saturation', N(33.3)), ('setreg', 'brightness', N(50.5)),
                ('setreg', 'kelvin', N(2700)), ('setreg', 'duration', N(0.5))),
    'raw': (('units', 'raw'), ('setreg', 'hue', N(21845)), ('setreg', 'saturation', N(30000)),
            ('setreg', 'brightness', N(40000)), ('setreg', 'kelvin', N(2700)), ('setreg', 'duration', N(500))),
    'rgb': (('units', 'rgb'), ('setreg', 'red', N(10.5)), ('setreg', 'green', N(80.25)), ('setreg', 'blue', N(40)),
            ('setreg', 'kelvin', N(2700)), ('setreg', 'duration', N(0.5))),
}
SECOND = {'logical': ('setreg', 'hue', N(300.3)), 'raw': ('setreg', 'hue', N(50000)), 'rgb': ('setreg', 'red', N(90.9))}
THIRD = {'logical': ('setreg', 'brightness', N(99.9)), 'raw': ('setreg', 'brightness', N(65535)), 'rgb': ('setreg', 'blue', N(99.9))}
DEFAULT = {'logical': (('setreg', 'hue', N(220)), ('setreg', 'brightness', N(15.5)), ('setdefault',)),
           'raw': (('setreg', 'hue', N(40000)), ('setreg', 'brightness', N(9000)), ('setdefault',)),
           'rgb': (('setreg', 'green', N(15.5)), ('setdefault',))}


def ranges(extent):
    out = [None]
    for a in range(extent):
        out.append((a, None))
        for b in range(a, extent):
            out.append((a, b))
    return out


def rects(h, w):
    return [(r, c) for r in ranges(h) for c in ranges(w)]


def _rng(r, kind='lit', pre=None, tag=''):
    if r is None:
        return None
    def val(x, nm):
        if kind == 'lit':
            return N(x)
        if kind == 'var':
            pre.append(('assign', nm, N(x)))
            return V(nm)
        if kind == 'fexpr':
            return ('bin', '/', N(2 * x), N(2))          # a whole number that is a float
        return ('bin', '-', N(x + 2), N(2))
    return (val(r[0], tag + 'a'), val(r[1], tag + 'b') if r[1] is not None else None)


def zone_programs(n):
    for mode in ('logical', 'raw', 'rgb'):
        for a in range(n):
            for b in [None] + list(range(a, n)):
                for kind in ('lit', 'var', 'expr'):
                    if kind != 'lit' and mode != 'logical':
                        continue
                    pre = []
                    za, zb = _rng((a, b), kind, pre, 'z')
                    yield COLORS[mode] + tuple(pre) + (
                        ('act', 'set', (('zone', S('s'), za, zb),)), ('print', N(1)),
                        SECOND[mode], ('act', 'set', (('zone', S('s'), za, zb), ('light', S('a')))))


def mixed_mode_programs(h, w):
    """Two matrix commands in one run, in different unit modes, whose registers hold the same numbers:
    each cell is converted by the mode in force when it is sent."""
    quads = [(0, 0, 100), (120, 100, 100), (50, 50, 50), (100, 0, 0)]
    def regs(mode, q):
        names = ('red', 'green', 'blue') if mode == 'rgb' else ('hue', 'saturation', 'brightness')
        return tuple(('setreg', n, N(v)) for n, v in zip(names, q)) + (('setreg', 'kelvin', N(2700)),)
    for m1, m2 in (('logical', 'rgb'), ('rgb', 'logical'), ('logical', 'raw'), ('raw', 'rgb'), ('rgb', 'raw'), ('raw', 'logical')):
        for q in quads:
            for form in ('inline', 'block', 'default'):
                def cmd(mode):
                    if form == 'inline':
                        return (('act', 'set', (('matrix', S('m'), (N(0), None), None),)),)
                    if form == 'block':
                        return (('act', 'set', (('block', S('m'), (('stage', None, (N(w - 1), None)),)),)),)
                    return (('setdefault',), ('act', 'set', (('matrix', S('m'), (N(h - 1), None), (N(0), None)),)))
                yield (('units', m1),) + regs(m1, q) + cmd(m1) + (('units', m2),) + regs(m2, q) + cmd(m2) + \
                    (('act', 'set', (('light', S('a')),)),)
    # a units switch between two stages of one block (with and without new register values after it), and
    # between `set default` and the command that uses the default
    for m1, m2 in (('logical', 'rgb'), ('rgb', 'logical'), ('logical', 'raw'), ('raw', 'rgb'), ('rgb', 'raw'), ('raw', 'logical')):
        for q in quads[2:4]:       # values that are in range in every unit mode
            for reset in (False, True):
                mid = (('units', m2),) + (regs(m2, q) if reset else ())
                body = (('stage', (N(0), None), None),) + mid + (('stage', None, (N(w - 1), None)),)
                yield (('units', m1),) + regs(m1, q) + (('act', 'set', (('block', S('m'), body),)),
                                                         ('act', 'set', (('light', S('a')),)))
                yield (('units', m1),) + regs(m1, q) + (('setdefault',),) + mid + \
                    (('act', 'set', (('matrix', S('m'), (N(0), None), None),)),)


def matrix_programs(h, w, max_stages, reduced):
    all_rects = rects(h, w)
    if reduced:
        keep = {None, (0, None), (h - 1, None), (0, h - 1), (min(1, h - 1), h - 1)}
        keepc = {None, (0, None), (w - 1, None), (0, w - 1), (min(1, w - 1), w - 1)}
        pair_rects = [(r, c) for r, c in all_rects if r in keep and c in keepc]
    else:
        pair_rects = all_rects
    for p in mixed_mode_programs(h, w):
        yield p
    for mode in ('logical', 'raw', 'rgb'):
        for with_default in (False, True):
            head = COLORS[mode] + (DEFAULT[mode] + COLORS[mode][1 if mode != 'logical' else 0:] if with_default else ())
            # one-line form and the equivalent one-stage block, rows/columns in either order
            for r, c in all_rects:
                for order in ('rc', 'cr'):
                    if order == 'cr' and (r is None or c is None):
                        continue
                    for kind in ('lit', 'var', 'expr', 'fexpr'):
                        if kind != 'lit' and (mode != 'logical' or with_default):
                            continue
                        pre = []
                        rr, cc = _rng(r, kind, pre, 'r'), _rng(c, kind, pre, 'c')
                        if r is None and c is None:
                            continue         # `set "m"` alone is a plain set, not a matrix command
                        yield head + tuple(pre) + (('act', 'set', (('matrix', S('m'), rr, cc, order),)),)
                        yield head + tuple(pre) + (('act', 'set', (('block', S('m'), (('stage', rr, cc, order),)),)),)
            # sequences of stages with different colours (later over earlier)
            for k in range(2, max_stages + 1):
                for seq in itertools.product(pair_rects, repeat=k):
                    body = []
                    for i, (r, c) in enumerate(seq):
                        if i == 1:
                            body.append(SECOND[mode])
                        if i == 2:
                            body.append(THIRD[mode])
                        body.append(('stage', _rng(r), _rng(c)))
                    yield head + (('act', 'set', (('block', S('m'), tuple(body)),)), ('print', N(1)),
                                  ('act', 'on', (('light', S('a')),)))
        # loop index and routine
        yield COLORS[mode] + (('act', 'set', (('block', S('m'), (
            ('repeat', ('range', 'r', N(0), N(h - 1)), (('stage', (V('r'), None), None), SECOND[mode])),)),)),)
        yield COLORS[mode] + (('define', 'st', ('r', 'c'), (('stage', (V('r'), None), (V('c'), None)),)),
                              ('act', 'set', (('block', S('m'), (('callst', 'st', (N(0), N(w - 1)), False), SECOND[mode],
                                                                 ('callst', 'st', (N(h - 1), N(0)), True))),)),)
        # commands for other lights between the stages of a block: the block is still sent, once, to its own light
        for inner in (('act', 'on', (('light', S('a')),)), ('act', 'set', (('light', S('a')),)),
                      ('act', 'off', (('group', S('g')),)), ('print', N(5))):
            for pos in (0, 1, 2):
                body = [('stage', (N(0), None), None), SECOND[mode], ('stage', None, (N(w - 1), None))]
                body.insert(pos if pos < 2 else 3, inner)
                yield COLORS[mode] + (('act', 'set', (('block', S('m'), tuple(body)),)), ('print', N(1)))
        # `set default` executed inside the block (before, between, after the stages; with and without one saved
        # before the block): uncovered cells carry the colour last saved when the matrix is transmitted
        for with_default in (False, True):
            head = COLORS[mode] + (DEFAULT[mode] + COLORS[mode][1 if mode != 'logical' else 0:] if with_default else ())
            for pos in (0, 1, 2):
                body = [('stage', (N(0), None), None), ('stage', None, (N(w - 1), None))]
                body[pos:pos] = [THIRD[mode], ('setdefault',), SECOND[mode]]
                yield head + (('act', 'set', (('block', S('m'), tuple(body)),)), ('print', N(1)),
                              ('act', 'set', (('matrix', S('m'), (N(h - 1), None), None),)))
        # blocks inside a routine that uses its parameters before, inside and after each block
        yield COLORS[mode] + (('define', 'f', ('r', 'c'), (
            ('act', 'set', (('block', S('m'), (('stage', (V('r'), None), None),)),)),
            ('print', V('r')),
            ('act', 'set', (('block', S('m'), (('stage', (V('r'), None), (V('c'), None)),)),)),
            ('print', V('c')),
            ('act', 'set', (('matrix', S('m'), None, (V('c'), None)),)))),
            ('callst', 'f', (N(h - 1), N(0)), False), ('callst', 'f', (N(0), N(w - 1)), True))
        # two set commands in a row: each transmits the whole matrix once
        yield COLORS[mode] + (('act', 'set', (('matrix', S('m'), (N(0), None), None),)), SECOND[mode],
                              ('act', 'set', (('matrix', S('m'), None, (N(w - 1), None)), ('light', S('a')))))


AND_POP = (('a', 'g', 'p'), ('s', 'g', 'p', 'strip', 4), ('m', 'h', 'q', 'matrix', 0, 2, 3),
           ('n', 'h', 'q', 'matrix', 0, 3, 2))


def and_list_programs(max_len):
    """One `set` whose operand list joins matrix, block, zone, light and group operands with `and`,
    in every order: each matrix operand transmits its light's whole matrix exactly once."""
    def operands(mode):
        return [
            ('matrix', S('m'), (N(0), None), None, 'rc'),
            ('matrix', S('m'), None, (N(1), N(2)), 'rc'),
            ('matrix', S('n'), (N(1), None), (N(0), None), 'rc'),
            ('block', S('m'), (('stage', (N(1), None), None),)),
            ('block', S('n'), (('stage', (N(0), N(1)), None), SECOND[mode], ('stage', None, (N(1), None)))),
            ('zone', S('s'), N(1), N(2)),
            ('light', S('a')),
            ('group', S('g')),
        ]
    for mode in ('logical', 'raw', 'rgb'):
        ops = operands(mode)
        for k in range(2, max_len + 1):
            for combo in itertools.product(ops, repeat=k):
                if not any(o[0] in ('matrix', 'block') for o in combo):
                    continue
                yield COLORS[mode] + (('act', 'set', tuple(combo)), ('print', N(1)),
                                      ('act', 'set', (('matrix', S('n'), None, (N(0), None), 'rc'),)))
