"""Programs for C04: every repeat form with counts {0,1,2,3,5}, integer bounds
in both directions, interpolation bounds incl. negative and fractional,
counts/bounds as literal, variable and expression, all unit modes for cycle,
every light-iteration form over populations of 0, 1, 2 and 4 lights, one level
of nesting of every form in every form (and in a routine), break absent /
unconditional / on the k-th pass in the inner or outer loop."""
import itertools

N = lambda v: ('num', v)
S = lambda s: ('str', s)
V = lambda n: ('var', n)


def as_kinds(v):
    """a numeric value as literal, variable (assigned in the prelude) and expression"""
    return [('lit', N(v), ()),
            ('var', V('c'), (('assign', 'c', N(v)),)),
            ('expr', ('bin', '+', N(v - 1), N(1)), ())]


def counted_specs(d):
    """(tag, prelude, spec, vars to print) for the forms without lights; d = depth suffix"""
    v = 'v' + d
    out = []
    for n in (0, 1, 2, 3, 5):
        for kind, e, pre in as_kinds(n):
            out.append(('count%d/%s' % (n, kind), pre, ('count', e), ()))
    for a in range(-2, 4):
        for b in range(-2, 4):
            out.append(('range%d:%d' % (a, b), (), ('range', v, N(a), N(b)), (v,)))
    out.append(('range-var', (('assign', 'lo', N(2)), ('assign', 'hi', N(-1))), ('range', v, V('lo'), V('hi')), (v,)))
    out.append(('range-expr', (), ('range', v, ('bin', '-', N(1), N(2)), ('bin', '*', N(1), N(2))), (v,)))
    for n in (0, 1, 2, 3, 5):
        for a, b in ((120, 180), (3, -2), (-1.5, 1.5), (10, 10)):
            out.append(('interp%d:%s:%s' % (n, a, b), (), ('interp', N(n), v, N(a), N(b)), (v,)))
    out.append(('interp-var', (('assign', 'c', N(3)),), ('interp', V('c'), v, ('bin', '*', N(2), N(5)), N(0)), (v,)))
    for n in (1, 2, 3, 5):
        for s in (None, 0, 45, -30):
            out.append(('cycle%d:%s' % (n, s), (), ('cycle', N(n), v, None if s is None else N(s)), (v,)))
    out.append(('cycle0', (), ('cycle', N(0), v, None), (v,)))
    out.append(('while0', (), ('while', N(0)), ()))
    # bounds, counts and start angles that read the loop's own variable: all of them are evaluated before the
    # variable gets its first value
    pre = lambda x: (('assign', v, N(x)),)
    out.append(('range-self-to', pre(4), ('range', v, N(1), V(v)), (v,)))
    out.append(('range-self-from', pre(2), ('range', v, V(v), N(4)), (v,)))
    out.append(('range-self-both', pre(2), ('range', v, V(v), ('bin', '*', V(v), N(2))), (v,)))
    out.append(('range-self-down', pre(3), ('range', v, N(5), V(v)), (v,)))
    out.append(('interp-self-to', pre(30), ('interp', N(3), v, N(10), V(v)), (v,)))
    out.append(('interp-self-from', pre(30), ('interp', N(3), v, V(v), N(10)), (v,)))
    out.append(('interp-self-count', pre(3), ('interp', V(v), v, N(0), N(10)), (v,)))
    out.append(('interp-self-all', pre(2), ('interp', V(v), v, V(v), ('bin', '+', V(v), N(4))), (v,)))
    out.append(('cycle-self-start', pre(90), ('cycle', N(3), v, V(v)), (v,)))
    out.append(('cycle-self-count', pre(3), ('cycle', V(v), v, None), (v,)))
    return out


def light_specs(pop, d):
    l, v = 'l' + d, 'v' + d
    labels = sorted(x.label for x in pop)
    groups = sorted({x.group for x in pop})
    locs = sorted({x.location for x in pop})
    a = labels[0] if labels else 'a'
    b = labels[-1] if labels else 'b'
    g = groups[0] if groups else 'g'
    h = groups[-1] if groups else 'h'
    p = locs[0] if locs else 'p'
    withs = [None, ('from', v, N(10), N(30)), ('from', v, N(1), N(-1)), ('cycle', v, None), ('cycle', v, N(90))]
    out = []
    # a range over the lights whose bounds read the range variable itself
    out.append(('all/self-to', (('assign', v, N(30)),), ('all', l, ('from', v, N(10), V(v))), (l, v)))
    out.append(('all/self-from', (('assign', v, N(30)),), ('all', l, ('from', v, V(v), N(10))), (l, v)))
    out.append(('all/self-cycle', (('assign', v, N(45)),), ('all', l, ('cycle', v, V(v))), (l, v)))
    for w in withs:
        wt = 'plain' if w is None else w[0] + str(w[2][1] if w[2] else '')
        vs = (l,) + ((v,) if w else ())
        out.append(('all/' + wt, (), ('all', l, w), vs))
        out.append(('groups/' + wt, (), ('groups', l, w), vs))
        out.append(('locations/' + wt, (), ('locations', l, w), vs))
        lists = [(('light', S(a)),), (('group', S(g)),), (('location', S(p)),),
                 (('light', S(b)), ('light', S(a))), (('group', S(h)), ('light', S(a))),
                 (('light', S(a)), ('location', S(p)), ('group', S(g))),
                 (('group', S('nosuch')), ('light', S(a))),
                 (('light', V('nm')),)]
        for i, srcs in enumerate(lists):
            pre = (('assign', 'nm', S(b)),) if i == len(lists) - 1 else ()
            out.append(('in%d/%s' % (i, wt), pre, ('in', srcs, l, w), vs))
    # list elements that are calls (each with its own argument) and variables: visited in list order, once each
    idn = ('define', 'idn', ('q',), (('return', V('q')),))
    pre = (idn, ('assign', 'nm', S(b)), ('assign', 'gn', S(g)))
    call = lambda x: ('call', 'idn', (x,))
    for j, srcs in enumerate([
            (('light', call(S(b))), ('light', call(S(a)))),
            (('light', call(S(a))), ('light', V('nm')), ('light', call(S(b)))),
            (('group', call(S(g))), ('light', call(S(b)))),
            (('light', call(V('nm'))), ('group', V('gn')), ('location', call(S(p)))),
            (('light', call(call(S(a)))), ('light', S(b)), ('light', call(S(a))))]):
        out.append(('in-calls%d/plain' % j, pre, ('in', srcs, l, None), (l,)))
        out.append(('in-calls%d/from10' % j, pre, ('in', srcs, l, ('from', v, N(10), N(30))), (l, v)))
    return out


def body_for(vars_, marker, is_light, brk):
    """print every loop variable (+ a command on the bound light), with break
    absent ('n'), unconditional after the prints ('u'), or on the 2nd pass ('k')."""
    b = [('print', N(marker))]
    for x in vars_:
        b.append(('print', V(x)))
    if is_light:
        b.append(('act', 'on', (('light', V(vars_[0])),)))
    return b


def _loop(spec, body):
    return ('repeat', spec, tuple(body))


def single(pop):
    for tag, pre, spec, vs in counted_specs('0') + light_specs(pop, '0'):
        is_light = spec[0] in ('all', 'in')
        base = body_for(vs, 1, is_light, 'n')
        yield tag + '/n', pre + (_loop(spec, base), ('print', N(99)))
        yield tag + '/u', pre + (_loop(spec, base + [('break',)]), ('print', N(99)))
        # break on the second pass, counted by an explicit variable
        cnt = [('assign', 'k', ('bin', '+', V('k'), N(1))),
               ('if', ((('bin', '>=', V('k'), N(2)), (('break',),)),), None)]
        yield tag + '/k', (('assign', 'k', N(0)),) + pre + (_loop(spec, base + cnt), ('print', N(99)))
        # count evaluated once: the body overwrites the variable the count came from
        if tag.endswith('/var') and spec[0] == 'count':
            yield tag + '/once', pre + (_loop(spec, base + [('assign', 'c', N(0))]), ('print', N(99)))
        # the same loop inside a routine
        yield tag + '/routine', pre + (('define', 'r', (), (_loop(spec, base),)), ('callst', 'r', (), False), ('print', N(99)))


def reduced_counted(d):
    keep = ('count0/lit', 'count2/lit', 'count3/var', 'range1:2', 'range2:0', 'range0:0', 'interp3:120:180',
            'interp1:3:-2', 'interp0:10:10', 'cycle2:None', 'cycle3:45', 'while0')
    return [x for x in counted_specs(d) if x[0] in keep]


def reduced_light(pop, d):
    keep = ('all/plain', 'all/from10', 'all/cycle', 'groups/plain', 'locations/from10', 'in1/plain', 'in3/plain',
            'in4/from1', 'in5/cycle90', 'in0/plain')
    return [x for x in light_specs(pop, d) if x[0] in keep]


def nested(pop, level=1):
    r_outer = reduced_counted('0') + reduced_light(pop, '0')
    r_inner = reduced_counted('1') + reduced_light(pop, '1')
    pairs = list(itertools.product(r_outer, r_inner))
    if level >= 2:
        f_outer = counted_specs('0') + light_specs(pop, '0')
        f_inner = counted_specs('1') + light_specs(pop, '1')
        done = {(a[0], b[0]) for a, b in pairs}
        src = (itertools.product(f_outer, f_inner) if level >= 3 else
               itertools.chain(itertools.product(f_outer, r_inner), itertools.product(r_outer, f_inner)))
        for a, b in src:
            if (a[0], b[0]) not in done:
                done.add((a[0], b[0]))
                pairs.append((a, b))
    for (t0, p0, s0, v0), (t1, p1, s1, v1) in pairs:
        l0 = s0[0] in ('all', 'in')
        l1 = s1[0] in ('all', 'in')
        for brk in ('n', 'iu', 'ik', 'ou', 'ok'):
            ib = body_for(v1 + v0, 2, l1, 'n')
            if brk == 'iu':
                ib.append(('break',))
            if brk == 'ik':
                ib += [('assign', 'k', ('bin', '+', V('k'), N(1))),
                       ('if', ((('bin', '>=', V('k'), N(2)), (('break',),)),), None)]
            ob = body_for(v0, 1, False, 'n')
            inner_pre = tuple(x for x in p1 if x not in p0) if 'self' in t1 else ()
            ob += list(inner_pre)       # the value a loop leaves in its variable is not documented: assign it anew on every entry
            ob.append(_loop(s1, ib))
            ob.append(('print', N(3)))
            if l0:
                ob.append(('act', 'off', (('light', V(v0[0])),)))
            if brk == 'ou':
                ob.append(('break',))
            if brk == 'ok':
                ob += [('assign', 'j', ('bin', '+', V('j'), N(1))),
                       ('if', ((('bin', '>=', V('j'), N(2)), (('break',),)),), None)]
            pre = (('assign', 'k', N(0)), ('assign', 'j', N(0))) + p0 + \
                (() if inner_pre else tuple(x for x in p1 if x not in p0))
            yield '%s>%s/%s' % (t0, t1, brk), pre + (_loop(s0, ob), ('print', N(99)))


def units_cycle(pop):
    """cycle in each unit mode (full turn = 360 in logical/rgb, 65536 raw)"""
    for mode in ('logical', 'rgb', 'raw'):
        for n in (1, 2, 3, 4, 5):
            for s in (None, 0, 100):
                yield 'cycle-%s-%d-%s' % (mode, n, s), (
                    ('units', mode),
                    ('repeat', ('cycle', N(n), 'v', None if s is None else N(s)), (('print', V('v')),)))
        yield 'cycle-lights-%s' % mode, (
            ('units', mode),
            ('repeat', ('all', 'l', ('cycle', 'v', None)), (('print', V('l')), ('print', V('v')))))


def returns_from_nested(pop):
    """A routine leaves two nested loops by `return` from the inner one; it is called from inside a light
    loop, a group loop, a counted loop, and from inside an expression with operands pending."""
    outer = reduced_counted('0') + reduced_light(pop, '0')
    inner = reduced_counted('1') + reduced_light(pop, '1')
    labels = sorted(x.label for x in pop)
    for (t0, p0, s0, v0), (t1, p1, s1, v1) in itertools.product(outer, inner):
        for when in ('first', 'second'):
            ib = [('print', N(2))] + [('print', V(x)) for x in v1]
            if when == 'first':
                ib.append(('return', N(7)))
            else:
                ib += [('assign', 'k', ('bin', '+', V('k'), N(1))),
                       ('if', ((('bin', '>=', V('k'), N(2)), (('return', N(7)),)),), None)]
            ob = [('print', N(1))] + [('print', V(x)) for x in v0] + [_loop(s1, ib), ('print', N(3))]
            body = tuple(x for x in p0 + p1) + (('assign', 'k', N(0)), _loop(s0, ob), ('return', N(8)))
            d = ('define', 'r', (), body)
            callers = [
                ('repeat', ('all', 'z', None), (('print', V('z')), ('callst', 'r', (), False), ('act', 'on', (('light', V('z')),)))),
                ('repeat', ('groups', 'z', None), (('print', V('z')), ('print', ('call', 'r', ())))),
                ('repeat', ('count', N(2)), (('print', ('bin', '+', N(100), ('call', 'r', ()))),)),
                ('print', ('bin', '*', ('bin', '+', N(1), N(2)), ('bin', '+', ('call', 'r', ()), N(1)))),
            ]
            if labels:
                callers.append(('repeat', ('in', (('light', ('str', labels[-1])), ('group', ('str', sorted({x.group for x in pop})[0]))),
                                           'z', ('from', 'q', N(1), N(9))),
                                (('print', V('z')), ('print', V('q')), ('callst', 'r', (), True))))
            for c in callers:
                yield 'ret/%s>%s/%s' % (t0, t1, when), (d, c, ('print', N(99)))


def programs(pop, nest):
    for tag, p in single(pop):
        yield p
    for tag, p in units_cycle(pop):
        yield p
    for tag, p in returns_from_nested(pop):
        yield p
    if nest:
        for tag, p in nested(pop, nest):
            yield p


def returns_from_nested_programs(pop):
    for tag, p in returns_from_nested(pop):
        yield p


def self_bound_programs(pop):
    """Loops whose count, bounds or start angle read (or, through a routine, write) the loop's own variable:
    everything in the loop header is evaluated before the variable receives its first value."""
    for tag, p in single(pop):
        if 'self' in tag:
            yield p
    v = 'v0'
    f_reads = ('define', 'f', (), (('return', ('bin', '+', V(v), N(2))),))
    f_loops = ('define', 'f', (), (('repeat', ('range', v, N(7), N(8)), (('act', 'on', (('light', ('str', 'a')),)),)),
                                   ('return', N(3))))
    for d in (f_reads, f_loops):
        for spec in (('range', v, N(1), ('call', 'f', ())), ('range', v, ('call', 'f', ()), N(6)),
                     ('interp', N(3), v, N(0), ('call', 'f', ())), ('cycle', N(2), v, ('call', 'f', ())),
                     ('interp', ('call', 'f', ()), v, N(1), N(2))):
            body = (('print', V(v)), ('act', 'set', (('light', ('str', 'a')),)))
            yield (('assign', v, N(1)), d, ('repeat', spec, body), ('print', N(99)))
            yield (('assign', v, N(1)), d, ('setreg', 'brightness', N(10)),
                   ('repeat', spec, (('setreg', 'hue', V(v)),) + body), ('print', N(99)))
