"""Valid-script corpus: every `lightbulb` code block of docs/*.rst, scripts/*.ls,
examples/*.ls of the tree under test (only those the compiler accepts are used
as mutation seeds / layout subjects; the count is reported)."""
import glob
import os
import re

from .. import repo


def doc_blocks():
    out = []
    for path in sorted(glob.glob(os.path.join(repo.REPO, 'docs', '*.rst'))):
        lines = open(path, encoding='utf-8').read().split('\n')
        i = 0
        while i < len(lines):
            m = re.match(r'^(\s*)\.\. code-block:: lightbulb\s*$', lines[i])
            if not m:
                i += 1
                continue
            base = len(m.group(1))
            i += 1
            block = []
            while i < len(lines):
                ln = lines[i]
                if ln.strip() == '':
                    block.append('')
                    i += 1
                    continue
                ind = len(ln) - len(ln.lstrip())
                if ind <= base:
                    break
                block.append(ln)
                i += 1
            text = '\n'.join(block).strip('\n')
            if text.strip():
                out.append(('%s#%d' % (os.path.basename(path), len(out)), text))
    return out


def files():
    out = []
    for pat in ('scripts/*.ls', 'examples/*.ls', 'tests/run_scripts/*.ls'):
        for path in sorted(glob.glob(os.path.join(repo.REPO, pat))):
            out.append((os.path.relpath(path, repo.REPO), open(path, encoding='utf-8').read()))
    return out


def all_texts():
    return doc_blocks() + files()


_TOK = re.compile(r'"[^"\n]*"|#[^\n]*|[^\s"#]+')


def split_tokens(text):
    """Whitespace/comment-insensitive token texts (strings kept whole, comments
    dropped).  Independent of the lexer under test."""
    return [t for t in _TOK.findall(text) if not t.startswith('#')]
