"""Typed expression trees for C02.

Types: N (number), B (truth value).  Arithmetic takes N gives N; comparison
takes N gives B; and/or take N or B and give B.  A comparison is never an
operand of arithmetic or of another comparison.  Leaves are distinct small
primes by position (so different groupings give different values); 0 appears
only as an operand of and/or.  A leading minus may stand on any N operand.
"""
import itertools

ARITH = ('^', '*', '/', '%', '+', '-')
CMP = ('<', '<=', '>', '>=', '==', '!=')
LOGIC = ('and', 'or')
ALL_OPS = ARITH + CMP + LOGIC
PRIMES = (2, 3, 5, 7, 11, 13)


def shapes(n):
    """binary tree shapes with n internal nodes: 'L' | (left, right)"""
    if n == 0:
        yield 'L'
        return
    for k in range(n):
        for a in shapes(k):
            for b in shapes(n - 1 - k):
                yield (a, b)


def _typed(shape, ops, pos, want):
    """Build the tree for `shape` consuming ops (list, by index pos[0]) and leaf
    slots; returns tree with ('leaf', type) placeholders, or None if ill-typed."""
    if shape == 'L':
        return ('leaf', want)
    op = ops[pos[0]]
    pos[0] += 1
    if op in ARITH:
        if want == 'B':
            return None
        a = _typed(shape[0], ops, pos, 'N')
        b = _typed(shape[1], ops, pos, 'N') if a is not None else None
    elif op in CMP:
        if want == 'N':
            return None
        a = _typed(shape[0], ops, pos, 'N')
        b = _typed(shape[1], ops, pos, 'N') if a is not None else None
    else:
        if want == 'N':
            return None
        a = _typed(shape[0], ops, pos, 'NB')
        b = _typed(shape[1], ops, pos, 'NB') if a is not None else None
    if a is None or b is None:
        return None
    return ('bin', op, a, b)


def _fill(tree, leaves, idx):
    if tree[0] == 'leaf':
        v = leaves[idx[0]]
        idx[0] += 1
        return v
    return ('bin', tree[1], _fill(tree[2], leaves, idx), _fill(tree[3], leaves, idx))


def _nleaves(tree):
    return 1 if tree[0] == 'leaf' else _nleaves(tree[2]) + _nleaves(tree[3])


def trees(n, ops_alphabet=ALL_OPS):
    """All typed trees with n operators; leaves are ('num', prime_i)."""
    for shape in shapes(n):
        for ops in itertools.product(ops_alphabet, repeat=n):
            t = _typed(shape, list(ops), [0], 'NB')
            if t is None:
                continue
            k = _nleaves(t)
            yield _fill(t, [('num', PRIMES[i]) for i in range(k)], [0])


def leaf_slots(tree, path=()):
    """paths of the leaves of a filled tree, with whether a zero / minus is allowed"""
    if tree[0] != 'bin':
        return [path]
    return leaf_slots(tree[2], path + (2,)) + leaf_slots(tree[3], path + (3,))


def replace(tree, path, new):
    if not path:
        return new
    t = list(tree)
    t[path[0]] = replace(tree[path[0]], path[1:], new)
    return tuple(t)


def parent_op(tree, path):
    t = tree
    op = None
    for p in path:
        op = t[1]
        t = t[p]
    return op


def with_minus(tree):
    """tree variants with a leading minus on exactly one operand (leaf or
    sub-expression) whose parent is arithmetic/comparison (a number position)."""
    out = []

    def walk(t, path, par):
        if par is None or par in ARITH or par in CMP:
            if t[0] != 'bin' or t[1] in ARITH:
                out.append(replace(tree, path, ('neg', t)))
        if t[0] == 'bin':
            walk(t[2], path + (2,), t[1])
            walk(t[3], path + (3,), t[1])
    walk(tree, (), None)
    return out


def with_zero(tree):
    """variants with literal 0 in one operand position of and/or"""
    out = []
    for path in leaf_slots(tree):
        if parent_op(tree, path) in LOGIC:
            out.append(replace(tree, path, ('num', 0)))
    return out


def compact(tokens):
    """Join tokens with white space removed wherever the two neighbours are
    not both alphanumeric (the documented "operators need no white space")."""
    out = ''
    for t in tokens:
        if out and (out[-1].isalnum() or out[-1] in '_."') and (t[0].isalnum() or t[0] in '_."'):
            out += ' '
        out += t
    return out
