"""Exact (rational) unit conversion for the reference model.  Imports nothing
from bardolph.  All results are Fractions; the comparison accepts the nearest
integer (either neighbour at an exact tie)."""
from fractions import Fraction as F

MAX16 = 65535
MAX32 = 2 ** 32 - 1


def frac(x):
    if isinstance(x, F):
        return x
    if isinstance(x, bool):
        return F(int(x))
    if isinstance(x, int):
        return F(x)
    return F(x)          # exact value of the float


def clamp(x, lo, hi):
    return lo if x < lo else hi if x > hi else x


def hue_raw(deg):
    d = frac(deg)
    d = d - 360 * (d // 360)          # mod 360, result in [0, 360)
    return d / 360 * MAX16


def pct_raw(p):
    return frac(p) / 100 * MAX16


def ms(seconds):
    return frac(seconds) * 1000


def rgb_to_hsv(r, g, b):
    """r,g,b in [0,1] Fractions -> (h in [0,1), s, v), exactly."""
    mx, mn = max(r, g, b), min(r, g, b)
    v = mx
    if mx == mn:
        return F(0), F(0), v
    d = mx - mn
    s = d / mx
    if mx == r:
        h = ((g - b) / d) % 6
    elif mx == g:
        h = (b - r) / d + 2
    else:
        h = (r - g) / d + 4
    return h / 6, s, v


def color_raw(mode, regs):
    """Exact raw colour (h, s, b, k) for the registers in unit mode `mode`,
    clamped to the protocol range.  Also returns which components the colour
    does not determine (free), for rgb / degenerate colours."""
    k = clamp(frac(regs['kelvin']), 0, MAX16)
    if mode == 'raw':
        return tuple(clamp(frac(regs[n]), 0, MAX16) for n in ('hue', 'saturation', 'brightness')) + (k,), ()
    if mode == 'logical':
        return (clamp(hue_raw(regs['hue']), 0, MAX16),
                clamp(pct_raw(regs['saturation']), 0, MAX16),
                clamp(pct_raw(regs['brightness']), 0, MAX16), k), ()
    raw_rgb = [frac(regs[n]) / 100 for n in ('red', 'green', 'blue')]
    r, g, b = (clamp(x, 0, 1) for x in raw_rgb)
    h, s, v = rgb_to_hsv(r, g, b)
    if any(x < 0 or x > 1 for x in raw_rgb):
        # a percentage outside 0..100 names no colour: only the protocol range is required
        return (h * MAX16, s * MAX16, v * MAX16, k), (0, 1, 2)
    free = ()
    if v == 0:
        free = (0, 1)
    elif s == 0:
        free = (0,)
    return (h * MAX16, s * MAX16, v * MAX16, k), free


def duration_raw(mode, value):
    v = frac(value) if mode == 'raw' else ms(value)
    return clamp(v, 0, MAX32)
