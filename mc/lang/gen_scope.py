"""Programs for C03: names {x, y, z} used at once as globals, parameters and
locals; assignments and returns at every depth of if/repeat; every call-site
kind; nested calls as arguments; recursion to depth 3."""
import itertools

N = lambda v: ('num', v)
V = lambda n: ('var', n)
PLUS = lambda a, b: ('bin', '+', a, b)

PRELUDE = (('assign', 'x', N(1)), ('assign', 'y', N(2)), ('define', 'nothing', (), (('return', None),)))
SHOW = (('print', V('x')), ('print', V('y')))
PARAM_LISTS = ((), ('x',), ('y',), ('z',), ('x', 'y'), ('y', 'x'))
ARGS = (N(5), V('x'), V('y'), PLUS(V('y'), N(10)), ('call', 'nothing', ()))


def simples(extra=()):
    out = []
    for tgt in 'xyz':
        for val in (N(7), V('x'), PLUS(V('y'), N(1))):
            out.append(('assign', tgt, val))
    for v in 'xyz':
        out.append(('print', V(v)))
    for e in (N(5), V('x'), PLUS(V('x'), V('y'))):
        out.append(('return', e))
    out.append(('return', None))
    return out + list(extra)


def wrap(s):
    return [('if', ((N(1), (s,)),), None),
            ('if', ((('bin', '==', V('x'), N(1)), (s,)),), None),
            ('repeat', ('count', N(2)), (s,)),
            ('repeat', ('all', 'l', None), (s,))]


def bodies(max_cost, extra=()):
    sm = simples(extra)
    units = [(1, s) for s in sm] + [(2, w) for s in sm for w in wrap(s)]
    if max_cost >= 3:
        # doubly wrapped: return / assignment two levels deep
        for s in sm:
            if s[0] in ('return', 'assign'):
                for w in wrap(s)[2:]:
                    for w2 in wrap(w)[:3]:
                        units.append((3, w2))

    def seqs(budget):
        yield ()
        for c, u in units:
            if c <= budget:
                for rest in seqs(budget - c):
                    yield (u,) + rest
    for b in seqs(max_cost):
        if b:
            yield b


def call_sites(name, nparams):
    for args in itertools.product(ARGS, repeat=nparams):
        yield (('callst', name, args, False),)
        yield (('callst', name, args, True),)
        yield (('print', ('call', name, args)),)
        yield (('assign', 'z', PLUS(('call', name, args), N(100))), ('print', V('z')))


def single_routine(max_cost):
    for params in PARAM_LISTS:
        for body in bodies(max_cost):
            d = ('define', 'f', params, body)
            for site in call_sites('f', len(params)):
                yield PRELUDE + (d,) + SHOW + site + SHOW


G_VARIANTS = (
    ('define', 'g', ('x', 'y'), (('print', V('x')), ('print', V('y')), ('return', PLUS(V('x'), V('y'))))),
    ('define', 'g', ('y',), (('assign', 'y', N(9)), ('assign', 'x', N(8)), ('assign', 'z', N(6)), ('return', V('y')))),
    ('define', 'g', ('z', 'x'), (('repeat', ('count', N(2)), (('assign', 'x', PLUS(V('x'), N(1))),)),
                                 ('print', V('x')), ('return', V('z')))),
    # no parameters: assigns names the caller may hold as parameters or locals, reads globals
    ('define', 'g', (), (('assign', 'z', N(6)), ('print', V('x')), ('print', V('y')), ('assign', 'w', N(3)),
                         ('return', PLUS(V('x'), V('w'))))),
    ('define', 'g', (), (('assign', 'x', N(8)), ('assign', 'z', N(5)))),
)


def two_routines():
    """f calls g in every form, with arguments naming f's parameters, globals
    and expressions, plain / inside repeat / inside if; and calls as arguments."""
    for g in G_VARIANTS:
        k = len(g[2])
        for args in itertools.product(ARGS, repeat=k):
            forms = [('callst', 'g', args, False), ('print', ('call', 'g', args)),
                     ('assign', 'z', ('call', 'g', args)), ('return', ('call', 'g', args)),
                     ('assign', 'x', PLUS(('call', 'g', args), V('x')))]
            for form in forms:
                for ctx in (lambda s: s, lambda s: ('repeat', ('count', N(2)), (s,)),
                            lambda s: ('if', ((N(1), (s,)),), None)):
                    st = ctx(form)
                    for params in PARAM_LISTS:
                        body = (('assign', 'z', N(41)), ('assign', 'w', N(42)), st, ('print', V('x')), ('print', V('y')),
                                ('print', V('z')), ('print', V('w')))
                        d = ('define', 'f', params, body)
                        for fargs in itertools.product((N(5), V('y')), repeat=len(params)):
                            yield PRELUDE + (g, d) + SHOW + (('callst', 'f', fargs, False),) + SHOW
        # calls as arguments of calls, from the top level
        for a1 in (ARGS[:3] if k else ()):
            inner = ('call', 'g', tuple([a1] * k))
            outer_args = tuple([inner] + [V('x')] * (k - 1))
            yield PRELUDE + (g,) + (('print', ('call', 'g', outer_args)),) + SHOW
            yield PRELUDE + (g,) + (('callst', 'g', outer_args, True),) + SHOW


def recursion():
    for pname in ('x', 'n'):
        p = V(pname)
        for local_before in (False, True):
            for local_after in (False, True):
                for depth in (0, 1, 2, 3):
                    for loop in (False, True):
                        body = []
                        if local_before:
                            body.append(('assign', 'z', PLUS(p, N(10))))
                        body.append(('print', p))
                        rec = ('callst', 'f', (('bin', '-', p, N(1)),), False)
                        if loop:
                            rec = ('repeat', ('count', N(1)), (rec,))
                        body.append(('if', ((('bin', '>', p, N(0)), (rec,)),), None))
                        if local_after:
                            body.append(('assign', 'y', PLUS(V('y'), p)))
                        if local_before:
                            body.append(('print', V('z')))
                        body.append(('print', p))
                        d = ('define', 'f', (pname,), tuple(body))
                        yield PRELUDE + (d,) + (('callst', 'f', (N(depth),), False),) + SHOW
                    # recursive function with a value
                    for depth in (0, 1, 3):
                        fb = (('if', ((('bin', '<=', p, N(0)), (('return', N(0)),)),), None),
                              ('return', PLUS(p, ('call', 'f', (('bin', '-', p, N(1)),)))))
                        d = ('define', 'f', (pname,), fb)
                        yield PRELUDE + (d,) + (('print', ('call', 'f', (N(depth),))),) + SHOW


def zero_param_recursion():
    for depth in (0, 1, 2, 3):
        body = (('assign', 'n', PLUS(V('n'), N(1))), ('assign', 'mine', V('n')), ('print', V('mine')),
                ('if', ((('bin', '<', V('n'), N(depth)), (('callst', 'f', (), False),)),), None),
                ('print', V('mine')))
        yield (('assign', 'n', N(0)), ('define', 'f', (), body), ('callst', 'f', (), False), ('print', V('n')))
        wrapper = ('define', 'h', ('mine',), (('callst', 'f', (), False), ('print', V('mine'))))
        yield (('assign', 'n', N(0)), ('define', 'f', (), body), wrapper, ('callst', 'h', (N(77),), False), ('print', V('n')))


def macro_clashes():
    """A macro with the name of a routine's parameter or local variable, defined before or after the routine
    (but always before the call): inside the routine the name means the parameter / local."""
    N = lambda v: ('num', v)
    V = lambda n: ('var', n)
    mac = ('defmacro', 'k', N(99))
    bodies = [
        (('k',), (('assign', 'k', ('bin', '+', V('k'), N(1))), ('print', V('k')), ('return', V('k')))),
        (('k',), (('print', V('k')), ('return', ('bin', '*', V('k'), N(2))))),
        (('k', 'j'), (('if', ((('bin', '>', V('k'), N(0)), (('return', ('bin', '+', V('k'),
                                                                       ('call', 'f', (('bin', '-', V('k'), N(1)), V('j'))))),)),), None),
                      ('return', V('j')))),
    ]
    for params, body in bodies:
        args = (N(3),) if len(params) == 1 else (N(3), N(10))
        d = ('define', 'f', params, body)
        use = (('print', ('call', 'f', args)), ('print', ('mac', 'k')), ('callst', 'f', args, False), ('print', ('mac', 'k')))
        yield (mac, d) + use                      # macro first
        yield (d, mac) + use                      # macro after the routine, before the call
    # a local variable of the routine
    d = ('define', 'g', (), (('assign', 'loc', N(1)), ('assign', 'loc', ('bin', '+', V('loc'), N(1))), ('print', V('loc')),
                             ('return', V('loc'))))
    yield (d, ('defmacro', 'other', N(50)), ('print', ('call', 'g', ())), ('print', ('mac', 'other')))


def programs(max_cost):
    from .static import reads_ok
    for p in macro_clashes():
        yield p
    for gen in (recursion(), zero_param_recursion(), two_routines(), single_routine(max_cost)):
        for p in gen:
            if reads_ok(p):          # the compile-time name rule, see lang/static.py
                yield p
