"""AST -> token list -> text.

AST forms (plain tuples; see lang/ref.py for their meaning):

 values   ('num', v) ('str', s) ('var', n) ('mac', n) ('reg', n)
          ('neg', e) ('bin', op, a, b) ('call', name, (args...)) ('pat', 'H:M')
 stmts    ('setreg', reg, e) ('units', mode) ('act', 'set'|'on'|'off', (operands...))
          ('setdefault',) ('get', e) ('wait',) ('time_at', (pats...))
          ('assign', n, e) ('defmacro', n, e) ('define', n, (params...), (body...))
          ('callst', n, (args...), bracketed) ('return', e|None)
          ('if', ((cond, (body...)), ...), else_body|None)
          ('repeat', spec, (body...)) ('break',)
          ('print', e|None) ('println', e|None) ('printf', fmt, (args...))
          ('stage', rows, cols)
 operands ('all',) ('light', e) ('group', e) ('location', e)
          ('zone', e, a, b|None) ('matrix', e, rows, cols) ('block', e, (body...))
          rows/cols = None | (a, b|None)
 repeat   ('forever',) ('while', c) ('count', n) ('range', v, a, b)
          ('interp', n, v, a, b) ('cycle', n, v, s|None)
          ('all', lv, w) ('groups', lv, w) ('locations', lv, w) ('in', (sources...), lv, w)
          w = None | ('from', v, a, b) | ('cycle', v, s|None)
          sources: ('light', e) ('group', e) ('location', e)
"""
from fractions import Fraction

PREC = {'or': 2, 'and': 3, '==': 4, '<=': 4, '>=': 4, '!=': 4, '<': 4, '>': 4,
        '+': 5, '-': 5, '*': 6, '/': 6, '%': 6, '^': 7}
RIGHT = {'^'}


def num_text(v):
    if isinstance(v, bool):
        return '1' if v else '0'
    if isinstance(v, int):
        return str(v)
    if isinstance(v, Fraction):
        v = float(v)
    s = repr(float(v))
    if 'e' in s or 'E' in s or 'inf' in s or 'nan' in s:
        s = ('%.12f' % v).rstrip('0')
        if s.endswith('.'):
            s += '0'
    return s


def expr_tokens(e, style='min', parent=None, side=None):
    """Tokens of an expression *inside* curly braces.

    style 'min': parentheses only where the documented table requires them;
    'full': every binary sub-expression parenthesised.
    """
    k = e[0]
    if k == 'num':
        v = e[1]
        if v < 0:
            return ['-', num_text(-v)]
        return [num_text(v)]
    if k == 'str':
        return ['"%s"' % e[1]]
    if k in ('var', 'mac', 'reg'):
        return [e[1]]
    if k == 'call':
        return call_tokens(e[1], e[2], True, style)
    if k == 'neg':
        inner = e[1]
        if inner[0] in ('bin', 'neg') or (inner[0] == 'num' and inner[1] < 0):
            return ['-', '('] + expr_tokens(inner, style) + [')']
        return ['-'] + expr_tokens(inner, style)
    if k == 'bin':
        op, a, b = e[1], e[2], e[3]
        ta = _operand(a, op, 'L', style)
        tb = _operand(b, op, 'R', style)
        return ta + [op] + tb
    raise ValueError('expr_tokens: %r' % (e,))


def _operand(x, op, side, style):
    t = expr_tokens(x, style)
    if x[0] != 'bin':
        return t
    if style == 'full':
        return ['('] + t + [')']
    p, q = PREC[x[1]], PREC[op]
    need = p < q
    if p == q:
        if op in RIGHT:
            need = side == 'L'
        else:
            need = side == 'R'
    return ['('] + t + [')'] if need else t


def value_tokens(e, style='min', brace_single=False):
    """Tokens of a value in a value position (braces added where needed)."""
    k = e[0]
    if k == 'pat':
        return [e[1]]
    if k == 'call':
        return call_tokens(e[1], e[2], True, style)
    simple = k in ('str', 'var', 'mac', 'reg') or (k == 'num')
    if simple and not brace_single:
        if k == 'num' and e[1] < 0:
            return ['-', num_text(-e[1])]
        return expr_tokens(e, style)
    return ['{'] + expr_tokens(e, style) + ['}']


def call_tokens(name, args, bracketed, style='min'):
    t = [name]
    for a in args:
        t += value_tokens(a, style)
    return (['['] + t + [']']) if bracketed else t


def body_tokens(body, style, force_block=False):
    if len(body) == 1 and not force_block:
        return stmt_tokens(body[0], style)
    t = ['begin']
    for s in body:
        t += stmt_tokens(s, style)
    return t + ['end']


def _range_tokens(word, r, style):
    if r is None:
        return []
    t = [word] + value_tokens(r[0], style)
    if r[1] is not None:
        t += value_tokens(r[1], style)
    return t


def operand_tokens(o, style):
    k = o[0]
    if k == 'all':
        return ['all']
    if k == 'light':
        return value_tokens(o[1], style)
    if k in ('group', 'location'):
        return [k] + value_tokens(o[1], style)
    if k == 'zone':
        t = value_tokens(o[1], style) + ['zone'] + value_tokens(o[2], style)
        if o[3] is not None:
            t += value_tokens(o[3], style)
        return t
    if k == 'matrix':
        order = o[4] if len(o) > 4 else 'rc'
        r = _range_tokens('row', o[2], style)
        c = _range_tokens('column', o[3], style)
        return value_tokens(o[1], style) + (r + c if order == 'rc' else c + r)
    if k == 'block':
        return value_tokens(o[1], style) + body_tokens(o[2], style, True)
    raise ValueError('operand %r' % (o,))


def _with_tokens(w, style):
    if w is None:
        return []
    if w[0] == 'from':
        return ['with', w[1], 'from'] + value_tokens(w[2], style) + ['to'] + value_tokens(w[3], style)
    t = ['with', w[1], 'cycle']
    if w[2] is not None:
        t += value_tokens(w[2], style)
    return t


def repeat_tokens(spec, style):
    k = spec[0]
    if k == 'forever':
        return ['repeat']
    if k == 'while':
        return ['repeat', 'while'] + value_tokens(spec[1], style)
    if k == 'count':
        return ['repeat'] + value_tokens(spec[1], style)
    if k == 'range':
        return ['repeat'] + _with_tokens(('from', spec[1], spec[2], spec[3]), style)
    if k == 'interp':
        return ['repeat'] + value_tokens(spec[1], style) + _with_tokens(('from', spec[2], spec[3], spec[4]), style)
    if k == 'cycle':
        return ['repeat'] + value_tokens(spec[1], style) + _with_tokens(('cycle', spec[2], spec[3]), style)
    if k == 'all':
        return ['repeat', 'all', 'as', spec[1]] + _with_tokens(spec[2], style)
    if k == 'groups':
        return ['repeat', 'group', 'as', spec[1]] + _with_tokens(spec[2], style)
    if k == 'locations':
        return ['repeat', 'location', 'as', spec[1]] + _with_tokens(spec[2], style)
    if k == 'in':
        t = ['repeat', 'in']
        for i, src in enumerate(spec[1]):
            if i:
                t.append('and')
            if src[0] == 'light':
                t += value_tokens(src[1], style)
            else:
                t += [src[0]] + value_tokens(src[1], style)
        return t + ['as', spec[2]] + _with_tokens(spec[3], style)
    raise ValueError('repeat %r' % (spec,))


def stmt_tokens(s, style='min'):
    k = s[0]
    if k == 'setreg':
        return [s[1]] + value_tokens(s[2], style)
    if k == 'units':
        return ['units', s[1]]
    if k == 'act':
        t = [s[1]]
        for i, o in enumerate(s[2]):
            if i:
                t.append('and')
            t += operand_tokens(o, style)
        return t
    if k == 'setdefault':
        return ['set', 'default']
    if k == 'stage':
        order = s[3] if len(s) > 3 else 'rc'
        r = _range_tokens('row', s[1], style)
        c = _range_tokens('column', s[2], style)
        return ['stage'] + (r + c if order == 'rc' else c + r)
    if k == 'get':
        return ['get'] + value_tokens(s[1], style)
    if k == 'wait':
        return ['wait']
    if k == 'time_at':
        t = ['time', 'at']
        for i, p in enumerate(s[1]):
            if i:
                t.append('or')
            t += value_tokens(p, style)
        return t
    if k == 'assign':
        return ['assign', s[1]] + value_tokens(s[2], style)
    if k == 'defmacro':
        return ['define', s[1]] + value_tokens(s[2], style)
    if k == 'define':
        t = ['define', s[1]]
        if s[2]:
            t += ['with'] + list(s[2])
        return t + body_tokens(s[3], style, force_block=len(s[3]) != 1)
    if k == 'callst':
        return call_tokens(s[1], s[2], s[3], style)
    if k == 'return':
        return ['return'] + (value_tokens(s[1], style) if s[1] is not None else [])
    if k == 'if':
        t = []
        n = len(s[1])
        for i, (c, body) in enumerate(s[1]):
            followed = i + 1 < n or s[2] is not None
            # a dangling else would bind to an inner if: force begin/end
            force = followed and len(body) == 1 and body[0][0] in ('if', 'repeat', 'define')
            t += (['else'] if i else []) + ['if'] + value_tokens(c, style) + body_tokens(body, style, force)
        if s[2] is not None:
            t += ['else'] + body_tokens(s[2], style)
        return t
    if k == 'repeat':
        # `cycle` with its optional start omitted would swallow a following
        # value-like token (a register word): keep the body in begin/end
        spec = s[1]
        w = spec[-1] if spec[0] in ('all', 'groups', 'locations', 'in') else None
        open_end = (spec[0] == 'cycle' and spec[3] is None) or \
            (w is not None and w[0] == 'cycle' and w[2] is None)
        return repeat_tokens(spec, style) + body_tokens(s[2], style, open_end)
    if k == 'break':
        return ['break']
    if k in ('print', 'println'):
        return [k] + (value_tokens(s[1], style) if s[1] is not None else [])
    if k == 'printf':
        t = ['printf', '"%s"' % s[1]]
        for a in s[2]:
            t += value_tokens(a, style)
        return t
    raise ValueError('stmt %r' % (s,))


def program_tokens(prog, style='min'):
    t = []
    for s in prog:
        t += stmt_tokens(s, style)
    return t


def render(prog, style='min'):
    return ' '.join(program_tokens(prog, style))
