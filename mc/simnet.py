"""Simulated LAN at the lifxlan seam.

`lifx_lan_api.lifxlan.LifxLAN` is replaced by SimLan; its devices implement
exactly the lifxlan surface bardolph calls.  Every call is appended to one
ordered request log, every *per-device* request first asks the fault oracle.

Assumptions (listed in evidence files that rely on them):
  * power in {True, 1, "on", 65535} means on;
  * set_zone_color(start, end) colours the half-open range [start, end);
  * a tile device stores the first height*width colours of SetTileState64,
    row-major.
"""
from lifxlan.errors import WorkflowException
from lifxlan.msgtypes import (GetDeviceChain, GetTileState64, SetTileState64)

ASSUMPTIONS = [
    'simulated LAN at the lifxlan method boundary (SimLan/SimDevice) instead of real LIFX firmware',
    'set_zone_color(start,end) colours the half-open range [start,end) (bardolph fake + lifxlan helper convention)',
    'a tile device stores the first height*width colours of a SetTileState64 payload row-major',
]


class TagList(list):
    """The ordered log; with a tagger set, every entry is prefixed by the tag (the running thread)."""
    tagger = None

    def append(self, e):
        if self.tagger is not None:
            e = (self.tagger(),) + tuple(e)
        list.append(self, e)


class Net:
    """Shared state of one simulated network: log, fault oracle, hooks."""

    def __init__(self):
        self.log = TagList()     # ordered request log
        self.fault = None        # callable(label, op) -> bool (True = fail)
        self.on_request = None   # callable(label, op) called before each request
        self.attempts = []       # (label, op, failed, epoch) for every per-device request
        self.epoch = 0           # set by the harness: index of the VM instruction being executed

    def request(self, label, op):
        if self.on_request is not None:
            self.on_request(label, op)
        failed = bool(self.fault(label, op)) if self.fault is not None else False
        self.attempts.append((label, op, failed, self.epoch))
        if failed:
            raise WorkflowException('simnet: no answer from "%s" to %s' % (label, op))


class _Tile:
    pass


class SimDevice:
    KIND_PLAIN, KIND_STRIP, KIND_MATRIX = 'plain', 'strip', 'matrix'

    def __init__(self, net, label, group, location, kind='plain',
                 zones=0, height=0, width=0):
        self.net = net
        self.label = label
        self.group = group
        self.location = location
        self.kind = kind
        self.n_zones = zones
        self.height = height
        self.width = width
        self.reset_state()

    def reset_state(self):
        self.color = [0, 0, 0, 0]
        self.power = 0
        self.zones = [[0, 0, 0, 0] for _ in range(self.n_zones)]
        self.cells = [[0, 0, 0, 0] for _ in range(self.height * self.width)]

    def state(self):
        return (tuple(self.color), self.power,
                tuple(tuple(z) for z in self.zones),
                tuple(tuple(c) for c in self.cells))

    # ---- identity (requests during discovery) ----
    def get_label(self):
        self.net.request(self.label, 'get_label')
        return self.label

    def get_group(self):
        self.net.request(self.label, 'get_group')
        return self.group

    def get_location(self):
        self.net.request(self.label, 'get_location')
        return self.location

    def get_product_features(self):
        self.net.request(self.label, 'get_product_features')
        return {'multizone': self.kind == 'strip',
                'matrix': self.kind == 'matrix', 'color': True}

    def get_product_name(self):
        self.net.request(self.label, 'get_product_name')
        return 'Sim ' + self.kind

    # ---- colour / power ----
    def get_color(self):
        self.net.request(self.label, 'get_color')
        self.net.log.append(('dev', self.label, 'get_color'))
        return list(self.color)

    def set_color(self, color, duration=0, rapid=False):
        self.net.request(self.label, 'set_color')
        self.net.log.append(('dev', self.label, 'set_color', tuple(color), duration))
        self.color = list(color)
        if self.kind == 'strip':
            self.zones = [list(color) for _ in range(self.n_zones)]
        if self.kind == 'matrix':
            self.cells = [list(color) for _ in self.cells]

    def get_power(self):
        self.net.request(self.label, 'get_power')
        self.net.log.append(('dev', self.label, 'get_power'))
        return self.power

    def set_power(self, power, duration=0, rapid=False):
        self.net.request(self.label, 'set_power')
        self.net.log.append(('dev', self.label, 'set_power', power, duration))
        self.power = 65535 if power in (True, 1, 'on', 65535) else 0

    # ---- multizone ----
    def get_color_zones(self, start=None, end=None):
        self.net.request(self.label, 'get_color_zones')
        return [list(z) for z in self.zones]

    def set_zone_color(self, start_index, end_index, color, duration=0,
                       rapid=False, apply=1):
        self.net.request(self.label, 'set_zone_color')
        self.net.log.append(('dev', self.label, 'set_zone_color',
                             start_index, end_index, tuple(color), duration))
        for i in range(max(0, start_index), min(end_index, self.n_zones)):
            self.zones[i] = list(color)

    # ---- matrix ----
    def req_with_resp(self, msg_type, response_type, payload=None, **_):
        if msg_type is GetDeviceChain:
            self.net.request(self.label, 'GetDeviceChain')
            res = _Tile()
            res.start_index = 0
            res.tile_devices = [{'width': self.width, 'height': self.height}]
            return res
        if msg_type is GetTileState64:
            self.net.request(self.label, 'GetTileState64')
            res = _Tile()
            res.colors = [list(c) for c in self.cells]
            # the real message always carries 64 cells
            res.colors += [[0, 0, 0, 0]] * (64 - len(res.colors))
            return res
        raise AssertionError('simnet: unexpected req_with_resp %r' % (msg_type,))

    def fire_and_forget(self, msg_type, payload=None, **_):
        if msg_type is SetTileState64:
            self.net.request(self.label, 'SetTileState64')
            colors = payload['colors']
            self.net.log.append(('dev', self.label, 'set_tile',
                                 tuple(None if c is None else tuple(c) for c in colors),
                                 payload['duration'],
                                 payload['width'], payload['height']))
            n = self.height * self.width
            self.cells = [list(c) for c in colors[:n]]
            return
        raise AssertionError('simnet: unexpected fire_and_forget %r' % (msg_type,))


class SimLan:
    """Stands in for lifxlan.LifxLAN."""
    current_net = None
    current_devices = []

    def __init__(self, num_lights=None, verbose=False):
        self.net = SimLan.current_net
        self.devices = SimLan.current_devices

    def get_lights(self):
        # lifxlan broadcasts; no per-device answer is needed for the list itself
        return list(self.devices)

    def set_color_all_lights(self, color, duration=0, rapid=False):
        self.net.log.append(('all', 'set_color', tuple(color), duration))
        for d in self.devices:
            d.color = list(color)
            if d.kind == 'strip':
                d.zones = [list(color) for _ in range(d.n_zones)]
            if d.kind == 'matrix':
                d.cells = [list(color) for _ in d.cells]

    def set_power_all_lights(self, power_level, duration=0, rapid=False):
        self.net.log.append(('all', 'set_power', power_level, duration))
        for d in self.devices:
            d.power = 65535 if power_level in (True, 1, 'on', 65535) else 0
