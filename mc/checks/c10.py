"""C10 — delays on one time line from script start; time-of-day restarts it.

Shape S: the real Clock (own thread) and Machine over virtual time.  For every
configuration (delay sequence x device work between delays x tick length x
unit mode x optional time-of-day wait) every schedule with <= bound deviations
(preemption between script and clock thread, stall) is executed and the
virtual-time trace is judged.
"""
import itertools

from .. import par, world
from ..cli import Report
from ..explore import choice, vthreads

from bardolph.lib import clock as clock_mod
from bardolph.parser.parse import Parser
from bardolph.vm.machine import Machine

POP = (world.Dev('a', 'g', 'p'),)
EPS = 1e-6


def trace_filter(code):
    if code.co_filename.endswith('lib/clock.py'):
        return True
    return code.co_filename.endswith('vm/machine.py') and code.co_name in ('_wait',)


def render_num(v):
    s = ('%.6f' % v).rstrip('0').rstrip('.')
    return s or '0'


def script_for(cfg):
    delays, work, tick, units, tod = cfg[:5]
    parts = []
    if units == 'raw':
        parts.append('units raw')
    items = [('d', d) for d in delays]
    if tod is not None:
        pos, pattern = tod[0], tod[1]
        items.insert(pos, ('t', pattern))
    for kind, v in items:
        if kind == 'd':
            val = v * 1000 if units == 'raw' else v
            parts.append('time %s on "a"' % render_num(val))
        else:
            parts.append('time at %s on "a"' % v)
    return ' '.join(parts), items


def execute(cfg, chooser, window=400):
    delays, work, tick, units, tod = cfg[:5]
    text, items = script_for(cfg)
    offset = tod[2] if tod is not None and len(tod) > 2 else 0.0
    sched = vthreads.Scheduler(chooser, horizon=400.0 if not offset else 45.0, max_steps=60000,
                               trace_filter=trace_filter, stall=True)
    w = world.World(POP, clock='real', overrides={'sleep_time': tick})
    shim = vthreads.ShimThreadingModule(sched, ['clock'] + ['extra%d' % i for i in range(4)])
    shimtime = vthreads.ShimTime(sched)
    clock_mod.threading = shim
    clock_mod.time = shimtime
    clock_mod.datetime = vthreads.ShimDatetimeClass(sched, offset)
    obs = dict(text=text, items=items)
    stalls = [0]
    real_advance = sched._advance_time

    def on_request(label, op):
        sched.log('dev', label, op)
        if work > 0:
            shimtime.sleep(work)
    w.net.on_request = on_request

    def close_window(s):
        if s.choices_open and s.points > window:
            s.choices_open = False
        return ()
    sched.extra = close_window

    def main():
        p = Parser()
        assert p.parse(text), p.get_errors()
        m = Machine()
        clk = m._clock
        for name in ('pause_for', 'wait_until', 'reset'):
            real = getattr(clk, name)

            def logged(*a, _real=real, _name=name):
                sched.log(_name + '-enter', a[0] if a and _name == 'pause_for' else None)
                r = _real(*a)
                sched.log(_name + '-exit')
                return r
            setattr(clk, name, logged)
        real_fire = clk.fire

        def fire_logged():
            sched.log('fire')
            return real_fire()
        clk.fire = fire_logged
        m.reset()
        m.run(p.get_program())
        sched.log('run-returned')
        if len(cfg) > 5 and cfg[5] == 'rerun':
            # the same job is executed again at once: its delays count from ITS start
            m.reset()
            m.run(p.get_program())
            sched.log('run-returned')
    # count stalls through the chooser kinds afterwards
    verdict = sched.run(main)
    obs.update(verdict=verdict, events=sched.events, errors=sched.errors, now=sched.now, points=sched.points,
               stalled=sched.stalled)
    return obs


def count_stalls(ch):
    """number of stall deviations taken in an execution (alternative index == number of enabled threads)"""
    return sum(1 for p in ch.points if p[1] != 0)      # upper bound: every deviation may be a stall


def _tag(bad):
    return None if bad is None else ('second-run-of-the-same-job:' + bad[0], bad[1])


def first_match(pattern, offset):
    """seconds from virtual time 0 until the first minute the pattern matches (0 if the current minute matches);
    None if that is more than 20 minutes away"""
    from .c11 import ref_set
    times = ref_set(pattern)
    m0 = int(offset // 60)
    for m in range(m0, m0 + 21):
        if ((m // 60) % 24, m % 60) in times:
            return max(0.0, m * 60.0 - offset)
    return None


def judge(cfg, obs, deviations):
    if len(cfg) > 5 and cfg[5] == 'rerun':
        # judge each of the two runs on its own events
        ev = obs['events']
        cut = next((i for i, e in enumerate(ev) if e[2] == 'run-returned'), None)
        if cut is None or obs['verdict'] is not None:
            return judge(cfg[:5], obs, deviations)
        first = dict(obs, events=ev[:cut + 1])
        second = dict(obs, events=ev[cut + 1:])
        return judge(cfg[:5], first, deviations) or _tag(judge(cfg[:5], second, deviations))
    delays, work, tick, units, tod = cfg[:5]
    ev = obs['events']
    offset = tod[2] if tod is not None and len(tod) > 2 else 0.0
    if tod is not None and offset:
        starts_in = first_match(tod[1], offset)
        if starts_in is None:
            # the awaited minute is almost a day away: within the horizon the wait must still be pending
            if any(e[2] == 'wait_until-exit' for e in ev):
                t = next(e[0] for e in ev if e[2] == 'wait_until-exit')
                return ('time-of-day-wait-fires-at-a-time-the-pattern-does-not-match',
                        '`time at %s` returned %.1f s after %02d:%02d:%02d' % (
                            tod[1], t, offset // 3600, offset % 3600 // 60, offset % 60))
            if obs['verdict'] == 'OVERRUN':
                return None
    if obs['verdict'] is not None:
        return (obs['verdict'].lower(), 't=%.2f' % obs['now'])
    if obs['errors']:
        return ('exception-escapes-thread', repr(obs['errors'][0]))
    stalled = obs.get('stalled', 0.0)
    slack = tick + stalled + EPS
    # segments: origin S, cumulative cue
    S = None
    cum = 0.0
    it = iter(obs['items'])
    expected = [x for x in obs['items'] if not (x[0] == 'd' and x[1] == 0)]
    k = 0
    i = 0
    n_dev = 0
    pending_exit = None
    first_reset_seen = False
    while i < len(ev):
        t, who, what = ev[i][0], ev[i][1], ev[i][2]
        if what == 'reset-exit' and who == 'main' and not first_reset_seen:
            S = t
            first_reset_seen = True
        elif what == 'pause_for-enter':
            if S is None:
                return ('time-line-not-restarted-at-script-start', 'a delay was requested before the clock was reset for this run')
            if k >= len(expected) or expected[k][0] != 'd':
                return ('unexpected-delay-request', 'event %d: %r' % (i, ev[i]))
            d = expected[k][1]
            req = ev[i][3]
            if abs(req - d) > 1e-9:
                return ('delay-value-wrong', 'requested %r for `time %s` (%s units)' % (req, d, units))
            cum += d
            due = S + cum
            enter = t
            j = next((x for x in range(i + 1, len(ev)) if ev[x][2] == 'pause_for-exit'), None)
            if j is None:
                return ('delay-never-ends', 'k=%d' % k)
            exit_t = ev[j][0]
            if exit_t < due - EPS:
                return ('delay-ends-early', 'delay %d (cumulative %.3f from S=%.3f) ended at %.3f, due %.3f' % (k, cum, S, exit_t, due))
            if enter >= due - EPS:
                if exit_t - enter > stalled + EPS:
                    return ('late-script-delayed-further', 'entered delay %d at %.3f >= due %.3f but left at %.3f' % (k, enter, due, exit_t))
            elif exit_t > due + slack:
                return ('delay-ends-late', 'delay %d due %.3f ended %.3f (tick %.2f, %d deviations)' % (k, due, exit_t, tick, deviations))
            # device command of this action only after the delay's return
            if any(ev[x][2] == 'dev' for x in range(i, j)):
                return ('command-before-its-delay-ended', 'k=%d' % k)
            k += 1
            i = j
        elif what == 'wait_until-enter':
            if k >= len(expected) or expected[k][0] != 't':
                return ('unexpected-time-of-day-wait', 'event %d' % i)
            pattern = expected[k][1]
            minute_start = first_match(pattern, offset)
            if minute_start is None:
                return ('time-of-day-wait-fires-at-a-time-the-pattern-does-not-match', '`time at %s` returned at %.1f' % (pattern, t))
            j = next((x for x in range(i + 1, len(ev)) if ev[x][2] == 'wait_until-exit'), None)
            if j is None:
                return ('time-of-day-wait-never-ends', pattern)
            exit_t = ev[j][0]
            lo = max(minute_start, t)
            if exit_t < minute_start - EPS:
                return ('time-of-day-wait-ends-early', '%s ended at %.2f' % (pattern, exit_t))
            if exit_t > lo + slack:
                return ('time-of-day-wait-ends-late', '%s (minute starts %.1f, entered %.2f) ended %.2f' % (pattern, minute_start, t, exit_t))
            S = exit_t
            cum = 0.0
            k += 1
            i = j
        elif what == 'dev':
            n_dev += 1
        i += 1
    if k != len(expected):
        return ('missing-waits', '%d of %d waits observed' % (k, len(expected)))
    if n_dev != len(obs['items']):
        return ('missing-commands', '%d of %d' % (n_dev, len(obs['items'])))
    return None


def configs(tier):
    vals = (0, 0.5, 1, 2.5, 0.0004)       # 0.0004 s: less than a millisecond is still a delay
    out = []
    maxlen = 2 if tier == 'quick' else 3
    for n in range(1, maxlen + 1):
        for delays in itertools.product(vals, repeat=n):
            for work in (0, 0.4, 3):
                for tick in (1.0, 0.3):
                    for units in ('logical', 'raw'):
                        out.append((delays, work, tick, units, None))
    # time-of-day waits before / between / after the delays; wall clock 0..2 minutes short
    for delays in ((1, 2.5), (0.5,), (2.5, 1)):
        for pos in range(len(delays) + 1):
            for pattern in ('0:00', '0:01', '0:02'):
                for work in (0, 3):
                    out.append((delays, work, 1.0, 'logical', (pos, pattern)))
    # a time of day that has already arrived when the script reaches it, a little behind its schedule: the time line
    # restarts there all the same (fine ticks, so that a delay laid on the old time line is seen to end early)
    for delays in ((1, 2.5), (2.5, 1), (0.5, 1)):
        for pos in range(1, len(delays) + 1):
            for work in (0.4, 0.7):
                out.append((delays, work, 0.3, 'logical', (pos, '0:00')))
    # the same job executed twice in a row (device work makes the first run end after its last cue)
    for delays in ((0.5,), (1, 0.5), (2.5,)):
        for work in (0.4, 3):
            for tick in (1.0, 0.3):
                out.append((delays, work, tick, 'logical', None, 'rerun'))
    # around an hour boundary: the wall clock shows 08:59:57 when the script starts
    near = 8 * 3600 + 59 * 60 + 57.0
    for pattern in ('8:00', '9:00', '8:59', '*:00', '9:*'):
        for tick in (1.0, 0.3):
            out.append(((1,), 0, tick, 'logical', (0, pattern, near)))
    return out


def _explore(args):
    cfg, bound = args
    st = dict(execs=0, points=0, viol={}, outcomes=set())

    def run(ch):
        return execute(cfg, ch)
    verdicts = {}

    def expand(ch, obs):
        dev = sum(1 for p in ch.points if p[1] != 0)
        bad = judge(cfg, obs, dev)
        verdicts[tuple(ch.choices)] = bad
        return bad is None
    for ch, obs in choice.explore(run, bound=bound, expand=expand):
        st['execs'] += 1
        st['points'] += obs['points']
        bad = verdicts.pop(tuple(ch.choices))
        st['outcomes'].add(tuple(round(e[0], 3) for e in obs['events'] if e[2] == 'pause_for-exit'))
        if bad is None and st['execs'] % 41 == 0:
            obs2 = execute(cfg, choice.Chooser(ch.choices))
            if obs2['events'] != obs['events']:
                bad = ('harness-nondeterministic-replay', '')
        if bad is not None:
            kind, detail = bad
            cur = st['viol'].get(kind)
            if cur is None or len(ch.choices) < len(cur[1]):
                st['viol'][kind] = [(cur[0] if cur else 0), ch.choices, detail]
            st['viol'][kind][0] += 1
    st['outcomes'] = len(st['outcomes'])
    return st


def run(tier, seed):
    rep = Report()
    cfgs = configs(tier)
    tasks = []
    for c in cfgs:
        deep = len(c[0]) <= 2
        tasks.append((c, (1 if deep else 0) if tier == 'quick' else (2 if len(c[0]) == 1 and c[4] is None and len(c) == 5 else 1)))
    results = par.run_tasks(_explore, tasks)
    tot_exec = tot_pts = outcomes = 0
    viol = {}
    for (cfg, bound), st in zip(tasks, results):
        tot_exec += st['execs']
        tot_pts += st['points']
        outcomes += st['outcomes']
        for kind, (cnt, choices, detail) in st['viol'].items():
            c2 = viol.get(kind)
            text = script_for(cfg)[0]
            if c2 is None or len(text) < len(c2[3]):
                viol[kind] = [(c2[0] if c2 else 0) + cnt, choices, detail, text, cfg]
            else:
                c2[0] += cnt
    for kind, (cnt, choices, detail, text, cfg) in sorted(viol.items()):
        rep.violation(kind, '%s: `%s` work=%s tick=%s (%d schedules): %s' % (kind, text, cfg[1], cfg[2], cnt, detail),
                      {'config': cfg, 'script': text, 'choices': choices, 'detail': detail, 'schedules': cnt})
    rep.coverage = {
        'states': tot_pts, 'transitions': tot_pts,
        'traces_validated_against_impl': tot_exec, 'evaluations': tot_exec,
        'distinct_nontrivial': outcomes,
        'rule': 'configurations = delay sequences over {0,0.0004,0.5,1,2.5} (logical and raw ms) x device work {0,0.4,3} x tick {1,0.3} '
                '+ time-of-day waits before/between/after with the wall clock 0..2 minutes short; per configuration all schedules '
                'with <= bound deviations (preemption clock/script thread, stall). distinct_nontrivial = distinct vectors of '
                'delay-return instants observed, summed over configurations',
        'exhaustive': True,
        'configurations': len(cfgs),
        'samples': [script_for(cfgs[5])[0], script_for(cfgs[-1])[0]],
    }
    rep.assumptions = ['virtual time advances only when no thread is runnable or by an explicit stall deviation; lateness bound = '
                       'one tick plus the virtual time that passed through stall deviations']
    return rep


def replay(path):
    import json
    v = json.load(open(path))
    wit = v['witness']
    cfg = wit['config']
    cfg = (tuple(cfg[0]), cfg[1], cfg[2], cfg[3], tuple(cfg[4]) if cfg[4] else None) + tuple(cfg[5:])
    ch = choice.Chooser(wit['choices'])
    obs = execute(cfg, ch)
    for e in obs['events']:
        print('   ', e)
    bad = judge(cfg, obs, sum(1 for p in ch.points if p[1] != 0))
    print('judgement:', bad)
    return bad is None
