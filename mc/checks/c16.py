"""C16 — compilation depends only on the token sequence; names are free.

 A  layouts: for every program of the corpus (docs, scripts, examples) and of
    generated slices, the token sequence is re-laid-out (every gap " ", "\\n",
    "\\t  ", a comment after every token, no white space next to operators /
    braces / brackets; every single gap set to each alternative; for a
    seed-rotated subset every pair of gaps; every subset of abbreviable
    register words abbreviated) and must compile to the same instruction list.
 B  AST-level: every call bracketed / unbracketed; every single value braced /
    unbraced (lists equal after the one rewrite PUSH v; POP d == MOVE v d, and
    both programs run to identical traces).
 C  identifiers: every name of length <= 2 (thorough: 3 over a 12-char subset),
    every case variant of every keyword / register / abbreviation other than the
    documented spelling, the lexer's internal class names in all cases — each
    as variable, macro, parameter and routine name; case pairs are distinct.
 D  strings: every Latin-1 character (not `"`, not line break) at the start,
    middle and end of a string, alone and followed by a second string on the
    same line; all pairs over a set of lexically loaded characters.
"""
import itertools

from .. import par, world
from ..cli import Report
from ..lang import ref as refmod
from ..lang import gen_loops, gen_scope, corpus, gen_k, gen_v, gen_x, render

from bardolph.lib.time_pattern import TimePattern
from bardolph.parser.parse import Parser
from bardolph.vm.vm_codes import OpCode

OPCH = set('{}[]()+-*/%^<>=!')
ABBR = {'hue': 'H', 'saturation': 'S', 'brightness': 'B', 'kelvin': 'K'}
DOC_KEYWORDS = ('all and as assign at begin break column cycle default define else end from get group if in '
                'location logical off on or pause print printf println raw repeat return rgb row set stage time '
                'to units wait while with zone').split()
DOC_REGISTERS = 'hue saturation brightness kelvin red green blue duration time default'.split()
UNDOCUMENTED_RESERVED = ('not', 'breakpoint')
INTERNAL = ('number eof error mark name null unknown compare register literal_string syntax_error '
            'time_pattern').split()
BUILTIN_FNS = 'round trunc floor ceil sqrt sin cos tan asin acos atan cycle random'.split()


def norm_param(p):
    if isinstance(p, TimePattern):
        try:
            return ('pattern', world.match_set(p))
        except Exception as ex:
            return ('pattern', 'match() raises %s' % type(ex).__name__)
    if isinstance(p, (int, float, str, bool)) or p is None:
        return (type(p).__name__, p)
    return str(p)


def listing(program):
    return [(i.op_code.name, norm_param(i.param0), norm_param(i.param1)) for i in program]


def compile_text(text):
    """-> ('ok', listing) | ('rejected', errors) | ('raises', repr)"""
    p = Parser()
    try:
        ok = p.parse(text)
    except Exception as ex:
        return 'raises', repr(ex)
    if not ok:
        return 'rejected', p.get_errors()
    return 'ok', listing(p.get_program())


_PATLIKE = __import__('re').compile(r'^[\d*]{1,2}:[\d*]{1,2}$')


def can_drop_gap(a, b):
    """white space may go where a neighbour is an operator, brace or bracket; the `*` of a time pattern is part
    of the pattern, not an operator: next to a pattern only a bracket or brace makes the gap optional"""
    if _PATLIKE.match(a):
        return b[0] in '[]{}()'
    if _PATLIKE.match(b):
        return a[-1] in '[]{}()'
    return a[-1] in OPCH or b[0] in OPCH


def layouts(tokens):
    """(name, text) for the whole-program layouts"""
    yield 'newlines', '\n'.join(tokens)
    yield 'tabs', '\t  '.join(tokens)
    yield 'comments', ''.join('%s # c%d {x}\n' % (t, i) for i, t in enumerate(tokens))
    out = tokens[0]
    for a, b in zip(tokens, tokens[1:]):
        out += ('' if can_drop_gap(a, b) else ' ') + b
    yield 'compact', out
    yield 'leading-trailing', '\n \t' + ' '.join(tokens) + '  \n\n# end'


GAP_ALTS = ('\n', '\t  ', ' # c\n', '# c\n', '')


def gap_variants(tokens, pairs):
    n = len(tokens) - 1

    def build(choice):
        out = tokens[0]
        for i in range(n):
            out += choice.get(i, ' ') + tokens[i + 1]
        return out
    for i in range(n):
        for alt in GAP_ALTS:
            if alt == '' and not can_drop_gap(tokens[i], tokens[i + 1]):
                continue
            yield 'gap%d=%r' % (i, alt), build({i: alt})
    if pairs:
        for i, j in itertools.combinations(range(n), 2):
            for a1 in GAP_ALTS:
                if a1 == '' and not can_drop_gap(tokens[i], tokens[i + 1]):
                    continue
                for a2 in GAP_ALTS:
                    if a2 == '' and not can_drop_gap(tokens[j], tokens[j + 1]):
                        continue
                    yield 'gaps%d,%d' % (i, j), build({i: a1, j: a2})


def abbrev_variants(tokens):
    idx = [i for i, t in enumerate(tokens) if t in ABBR]
    if not idx:
        return
    if len(idx) <= 8:
        subsets = itertools.chain.from_iterable(itertools.combinations(idx, k) for k in range(1, len(idx) + 1))
    else:
        subsets = [tuple(idx)] + [(i,) for i in idx] + [tuple(idx[::2]), tuple(idx[1::2])]
    for sub in subsets:
        t2 = list(tokens)
        for i in sub:
            t2[i] = ABBR[t2[i]]
        yield 'abbr%s' % (sub,), ' '.join(t2)


def subjects(tier):
    """token lists of the programs whose layouts are explored"""
    out = []
    for name, text in corpus.all_texts():
        toks = corpus.split_tokens(text)
        if 0 < len(toks) <= 300:
            out.append((name, toks))
    import itertools as it
    for i, (n, prog) in enumerate(it.islice(gen_k.programs(5), 0, None, 23)):
        out.append(('K%d' % i, render.program_tokens(prog)))
    for i, (n, prog) in enumerate(it.islice(gen_v.programs(2, world.POP_MIXED), 0, None, 11)):
        out.append(('V%d' % i, render.program_tokens(prog)))
    for i, (n, prog) in enumerate(it.islice(gen_x.programs(3, world.POP_THREE), 0, None, 7)):
        out.append(('X%d' % i, render.program_tokens(prog)))
    return out


class Tally:
    def __init__(self):
        self.n = 0
        self.viol = {}
        self.distinct = set()

    def bad(self, kind, text, detail):
        cur = self.viol.get(kind)
        if cur is None:
            self.viol[kind] = [1, text, detail]
        else:
            cur[0] += 1
            if len(text) < len(cur[1]):
                cur[1], cur[2] = text, detail

    def dump(self):
        return dict(n=self.n, viol=self.viol, distinct=len(self.distinct))


def _first_diff(a, b):
    for i, (x, y) in enumerate(zip(a, b)):
        if x != y:
            return 'instruction %d: %r vs %r' % (i, x[:1] + tuple(str(z)[:40] for z in x[1:]),
                                                  y[:1] + tuple(str(z)[:40] for z in y[1:]))
    return 'length %d vs %d' % (len(a), len(b))


def _part_a(rank, n, subj, seed, pair_quota):
    world.World(world.POP_ONE)          # the compiler needs the injection bindings (runtime functions)
    t = Tally()
    order = sorted(range(len(subj)), key=lambda i: (hash((seed, subj[i][0])) & 0xffff, i))
    pair_set = set(order[:pair_quota])
    for si, (name, toks) in enumerate(subj):
        if si % n != rank:
            continue
        st, base = compile_text(' '.join(toks))
        if st != 'ok':
            continue
        t.distinct.add(name)
        pairs = si in pair_set and len(toks) <= 40
        for lname, text in itertools.chain(layouts(toks), gap_variants(toks, pairs), abbrev_variants(toks)):
            t.n += 1
            st2, got = compile_text(text)
            kindname = lname.split('=')[0].rstrip('0123456789,').split('(')[0]
            if lname.startswith('gap') and lname.endswith("''"):
                kindname = 'gap-removed'
            if st2 != 'ok':
                t.bad('layout-%s:%s' % (st2, kindname), text, '%s [%s of %s]' % (got, lname, name))
            elif got != base:
                t.bad('layout-changes-program:%s' % kindname, text,
                      '%s [%s of %s]' % (_first_diff(base, got), lname, name))
    return t.dump()


# ---------------------------------------------------------------- part B
def single_call_bodies():
    """routines whose whole body is one call, written without begin/end: `define g f 4` and `define g [f 4]`"""
    N = lambda v: ('num', v)
    V = lambda n: ('var', n)
    f = ('define', 'f', ('p',), (('print', V('p')),))
    f0 = ('define', 'f0', (), (('print', N(7)),))
    idn = ('define', 'idn', ('q',), (('return', V('q')),))
    for params, call in [((), ('callst', 'f', (N(4),), False)), ((), ('callst', 'f0', (), False)),
                         (('q',), ('callst', 'f', (V('q'),), False)),
                         ((), ('callst', 'f', (('call', 'idn', (N(2),)),), False)),
                         (('q', 'r'), ('callst', 'f', (('bin', '+', V('q'), V('r')),), False))]:
        g = ('define', 'g', params, (call,))
        args = tuple(N(i + 1) for i in range(len(params)))
        yield (f, f0, idn, g, ('callst', 'g', args, False), ('callst', 'g', args, True))
        yield (f, f0, idn, ('if', ((N(1), (g,)),), None), ('callst', 'g', args, False))


def flip_calls(prog):
    """all programs obtained by flipping the bracket flag of one call statement"""
    out = []

    def walk(block, rebuild):
        for i, s in enumerate(block):
            def rb(new, i=i, block=block, rebuild=rebuild):
                return rebuild(block[:i] + (new,) + block[i + 1:])
            if s[0] == 'callst':
                out.append(rb(('callst', s[1], s[2], not s[3])))
            elif s[0] == 'if':
                for bi, (c, b) in enumerate(s[1]):
                    walk(b, lambda nb, s=s, bi=bi, rb=rb: rb(('if', s[1][:bi] + ((s[1][bi][0], nb),) + s[1][bi + 1:], s[2])))
                if s[2] is not None:
                    walk(s[2], lambda nb, s=s, rb=rb: rb(('if', s[1], nb)))
            elif s[0] == 'repeat':
                walk(s[2], lambda nb, s=s, rb=rb: rb(('repeat', s[1], nb)))
            elif s[0] == 'define':
                walk(s[3], lambda nb, s=s, rb=rb: rb(('define', s[1], s[2], nb)))
    walk(tuple(prog), lambda b: b)
    return out


def rewrite_push_pop(lst):
    """PUSH/PUSHQ v ; POP d  ==  MOVE/MOVEQ v d.  Jump offsets are dropped from
    this comparison (the two spellings differ in length); control flow is
    compared by running both programs."""
    lst = [(x[0], x[1], None) if x[0] == 'JUMP' else x for x in lst]
    out = []
    i = 0
    while i < len(lst):
        a = lst[i]
        if a[0] in ('PUSH', 'PUSHQ') and i + 1 < len(lst) and lst[i + 1][0] == 'POP':
            out.append(('MOVEQ' if a[0] == 'PUSHQ' else 'MOVE', a[1], lst[i + 1][1]))
            i += 2
        else:
            out.append(a)
            i += 1
    return out


def _moves(lst):
    """MOVE of a value onto itself is omitted by the compiler: drop for comparison"""
    return [x for x in lst if not (x[0] == 'MOVE' and x[1] == x[2])]


def _routine_names(prog, acc=None):
    acc = set() if acc is None else acc
    for s in prog:
        if s[0] == 'define':
            acc.add(s[1])
            _routine_names(s[3], acc)
        elif s[0] == 'if':
            for _, b in s[1]:
                _routine_names(b, acc)
            if s[2]:
                _routine_names(s[2], acc)
        elif s[0] == 'repeat':
            _routine_names(s[2], acc)
    return acc


def brace_variants(prog):
    """token lists with exactly one simple value position written in braces"""
    base = render.program_tokens(prog)
    routines = _routine_names(prog)
    out = []
    # positions: a simple value token directly after a value-taking keyword
    takers = {'hue', 'saturation', 'brightness', 'kelvin', 'duration', 'time', 'red', 'green', 'blue',
              'print', 'if', 'to', 'from', 'zone', 'row', 'column', 'return', 'while'}
    for i in range(len(base) - 1):
        a, b = base[i], base[i + 1]
        simple = b.replace('.', '', 1).isdigit() or (b.isidentifier() and b not in takers and
                                                      b not in DOC_KEYWORDS and b not in ('H', 'S', 'B', 'K'))
        if a in takers and simple and b not in routines and (a != 'time' or b != 'at'):
            out.append(base[:i + 1] + ['{', b, '}'] + base[i + 2:])
    # an element of a `repeat in` list (a light, group or location name)
    in_list = False
    for i, b in enumerate(base):
        if b == 'in' and i > 0 and base[i - 1] not in ('{', '['):
            in_list = True
        elif b == 'as':
            in_list = False
        elif in_list and base[i - 1] in ('in', 'and', 'group', 'location') and \
                (b.startswith('"') or (b.isidentifier() and b not in DOC_KEYWORDS and b not in routines)):
            out.append(base[:i] + ['{', b, '}'] + base[i + 1:])
    # an operand inside an expression: braces round it leave the expression as it was
    depth = 0
    for i, b in enumerate(base):
        if b == '{':
            depth += 1
        elif b == '}':
            depth -= 1
        elif depth > 0 and i > 0 and base[i - 1] != '[':
            simple = b.replace('.', '', 1).isdigit() or (b.isidentifier() and b not in DOC_KEYWORDS and
                                                          b not in ('H', 'S', 'B', 'K') and b not in routines)
            if simple:
                out.append(base[:i] + ['{', b, '}'] + base[i + 1:])
    return out


def _part_b(rank, n):
    w = world.World(world.POP_THREE)
    t = Tally()
    idx = 0
    gens = itertools.chain(
        ((n_, p) for n_, p in gen_k.programs(5)),
        gen_x.programs(3, world.POP_THREE),
        itertools.islice(gen_v.programs(2, world.POP_THREE), 0, None, 3),
        ((0, p) for tag, p in gen_loops.single(world.POP_THREE) if tag.startswith('in')),
        # routine calls with calls among their arguments, as statements and as values
        ((0, p) for p in itertools.islice(gen_scope.programs(2), 0, None, 23)),
        ((0, p) for p in single_call_bodies()))
    for n_, prog in gens:
        idx += 1
        if idx % n != rank:
            continue
        text = render.render(prog)
        st, base = compile_text(text)
        if st != 'ok':
            continue
        for alt in flip_calls(prog):
            toks2 = render.program_tokens(alt)
            toks1 = render.program_tokens(prog)
            if any(x == 'return' and tk[i + 1:i + 2] == ['['] for tk in (toks1, toks2) for i, x in enumerate(tk)):
                continue        # `return [f]` returns f's value: not a bracket-only change
            t.n += 1
            t2 = ' '.join(toks2)
            st2, got = compile_text(t2)
            if st2 != 'ok':
                t.bad('bracket-%s' % st2, t2, str(got))
            elif got != base:
                t.bad('call-brackets-change-program', t2, _first_diff(base, got))
        if idx % 5 == rank % 5:
            try:
                refmod.Ref(world.POP_THREE, cap=4000).run(prog)
                defined = True
            except (refmod.RefUndefined, refmod.RefCap):
                defined = False     # e.g. the value of a call that returned nothing is used: `x` and `{x}` may differ there
            for toks in (brace_variants(prog) if defined else ()):
                t.n += 1
                t2 = ' '.join(toks)
                st2, got = compile_text(t2)
                if st2 != 'ok':
                    t.bad('braced-value-%s' % st2, t2, str(got))
                    continue
                nbase = _moves(rewrite_push_pop(base))
                if _moves(rewrite_push_pop(got)) != nbase:
                    t.bad('braces-round-a-value-change-program', t2, _first_diff(nbase, _moves(rewrite_push_pop(got))))
                    continue
                w.reset()
                r1 = w.run_script(text)
                w.reset()
                r2 = w.run_script(t2)
                # a script-level error is the same error wherever it is raised: the message names an instruction
                # number, which differs between the two spellings (PUSH/POP versus MOVE)
                if (r1.trace, r1.abort and r1.abort[1:]) != (r2.trace, r2.abort and r2.abort[1:]):
                    t.bad('braces-round-a-value-change-behaviour', t2, 'traces differ')
                t.distinct.add(t2)
    return t.dump()


# ---------------------------------------------------------------- part C
FIRST = 'abcdefghijklmnopqrstuvwxyzABCDEFGHIJKLMNOPQRSTUVWXYZ_'
REST = FIRST + '0123456789'
SUB12 = 'aZ_09xHSifon'


def excluded(name):
    return (name in DOC_KEYWORDS or name in DOC_REGISTERS or name in ('H', 'S', 'B', 'K')
            or name in UNDOCUMENTED_RESERVED or name in BUILTIN_FNS)


def identifiers(tier):
    seen = set()

    def emit(nm):
        if nm not in seen and not excluded(nm) and nm[0] in FIRST:
            seen.add(nm)
            return True
        return False
    for a in FIRST:
        if emit(a):
            yield a
    for a in FIRST:
        for b in REST:
            if emit(a + b):
                yield a + b
    words = list(DOC_KEYWORDS) + DOC_REGISTERS + ['h', 's', 'b', 'k'] + list(UNDOCUMENTED_RESERVED) + INTERNAL
    for wd in words:
        variants = set()
        if len(wd) <= 10:
            for mask in range(1, 2 ** len(wd)):
                variants.add(''.join(c.upper() if mask >> i & 1 else c for i, c in enumerate(wd)))
        else:
            variants |= {wd.upper(), wd.capitalize(), wd.title()}
        if wd in INTERNAL:
            variants.add(wd)
        for v in sorted(variants):
            if emit(v):
                yield v
    if tier == 'thorough':
        for a in SUB12:
            for b in SUB12:
                for c in SUB12:
                    if a in FIRST and emit(a + b + c):
                        yield a + b + c
        for stem in ('x', 'hue', 'if', 'end', 'number'):
            for suffix in ('_1', '1', 'X', '_', 'hue', 'end'):
                if emit(stem + suffix):
                    yield stem + suffix
        for n8 in ('abcdefgh', 'A1b2C3d4', '_____ab_', 'define_1', 'endbegin'):
            if emit(n8):
                yield n8


def id_templates(nm):
    return [('variable', 'assign %s 7 print %s' % (nm, nm), [7]),
            ('macro', 'define %s 8 print %s' % (nm, nm), [8]),
            ('parameter', 'define helper_routine_ with %s print %s helper_routine_ 9' % (nm, nm), [9]),
            ('routine', 'define %s print 10 %s' % (nm, nm), [10]),
            ('loop-variable', 'repeat with %s from 4 to 4 print %s' % (nm, nm), [4])]


def _part_c(rank, n, tier):
    w = world.World(world.POP_ONE)
    t = Tally()
    for i, nm in enumerate(identifiers(tier)):
        if i % n != rank:
            continue
        t.distinct.add(nm)
        for role, text, want in id_templates(nm):
            t.n += 1
            w.reset()
            res = w.run_script(text)
            outs = [e[1] for e in res.trace if e[0] == 'out']
            if res.accepted is None:
                t.bad('identifier-crashes-compiler:' + role, text, res.raised)
            elif not res.accepted:
                t.bad('identifier-rejected:' + _id_class(nm), text, res.errors)
            elif res.abort or outs != want:
                t.bad('identifier-wrong-behaviour:' + _id_class(nm), text, repr((outs, res.abort)))
        # case-sensitivity: the other-case twin is a different name
        twin = nm.swapcase()
        if twin != nm and not excluded(twin) and twin[0] in FIRST:
            t.n += 1
            text = 'assign %s 1 assign %s 2 print %s print %s' % (nm, twin, nm, twin)
            w.reset()
            res = w.run_script(text)
            outs = [e[1] for e in res.trace if e[0] == 'out']
            if not res.accepted or outs != [1, 2]:
                t.bad('names-not-case-sensitive:' + _id_class(nm), text, repr((res.accepted, res.errors, outs)))
    return t.dump()


def _id_class(nm):
    low = nm.lower()
    if low in INTERNAL:
        return 'internal-token-class-name'
    if low in DOC_KEYWORDS or low in DOC_REGISTERS or low in UNDOCUMENTED_RESERVED or low in ('h', 's', 'b', 'k'):
        return 'case-variant-of-reserved-word'
    return 'ordinary-name'


# ---------------------------------------------------------------- part D
LOADED = ['\\', '#', '{', '}', '[', ']', ':', '*', ' ', '%', "'", '-']


def string_cases():
    chars = [chr(c) for c in range(256) if chr(c) not in '"\n\r']
    for c in chars:
        for s in (c + 'ab', 'a' + c + 'b', 'ab' + c, c):
            yield s
    for a in LOADED:
        for b in LOADED:
            for s in (a + b, 'x' + a + b, a + b + 'x', a + 'x' + b):
                yield s


def _part_d(rank, n):
    w = world.World(world.POP_ONE)
    t = Tally()
    for i, s in enumerate(string_cases()):
        if i % n != rank:
            continue
        t.distinct.add(s)
        for form, text, want in (
                ('alone', 'print "%s"' % s, [s]),
                ('then-string', 'print "%s" print "y"' % s, [s, 'y']),
                ('as-name', 'assign q "%s" print q' % s, [s])):
            t.n += 1
            w.reset()
            res = w.run_script(text)
            outs = [e[1] for e in res.trace if e[0] == 'out']
            if res.accepted and not res.abort and outs == want:
                continue
            if s.endswith('\\'):
                kind = 'string-ending-in-backslash:' + ('followed-by-quote-on-line' if form == 'then-string' else 'alone')
            elif '\\' in s:
                kind = 'string-containing-backslash'
            else:
                kind = 'string-content-not-preserved'
            t.bad(kind, text, repr((res.accepted, res.errors, outs)))
    return t.dump()


# ---------------------------------------------------------------- driver
def run(tier, seed):
    rep = Report()
    subj = subjects(tier)
    quota = 200 if tier == 'quick' else 1200
    parts = {
        'A:layouts': par.run(_part_a, (subj, seed, quota)),
        'B:brackets-braces': par.run(_part_b, ()),
        'C:identifiers': par.run(_part_c, (tier,)),
        'D:strings': par.run(_part_d, ()),
    }
    viol = {}
    n_total = 0
    per = {}
    distinct = 0
    for pname, dumps in parts.items():
        per[pname] = sum(d['n'] for d in dumps)
        n_total += per[pname]
        distinct += sum(d['distinct'] for d in dumps)
        for d in dumps:
            for kind, (cnt, text, detail) in d['viol'].items():
                cur = viol.get(kind)
                if cur is None:
                    viol[kind] = [cnt, text, detail]
                else:
                    cur[0] += cnt
                    if len(text) < len(cur[1]):
                        cur[1], cur[2] = text, detail
    for pname, cnt in per.items():
        assert cnt > 0, 'harness: part %s explored nothing' % pname
    for kind, (cnt, text, detail) in sorted(viol.items()):
        rep.violation(kind, '%s (%d cases), e.g. %r: %s' % (kind, cnt, text, detail),
                      {'text': text, 'detail': detail, 'cases': cnt})
    rep.coverage = {
        'states': n_total, 'transitions': n_total,
        'traces_validated_against_impl': n_total, 'evaluations': n_total,
        'distinct_nontrivial': distinct,
        'rule': 'A: every whole-program layout, every single-gap deviation, every abbreviation subset for each subject; '
                'gap pairs for a VERIF_SEED-rotated subset of %d subjects; B: every single call-bracket flip, every single '
                'braced value; C: every identifier x 5 roles (+ case twin); D: every string case x 3 forms. '
                'distinct_nontrivial = subjects + identifiers + strings + braced programs actually exercised' % quota,
        'exhaustive': True,
        'layout_subjects': len(subj),
        'cases_per_part': per,
        'samples': ['assign\\nx\\n{\\n5\\n}', 'H 5 S{1+2}on all', 'define IF print 10 IF', 'print "a#b" print "y"'],
    }
    rep.assumptions = ['`not` and `breakpoint` (undocumented reserved words that are real features) and the built-in function '
                       'names are outside the identifier alphabet',
                       'VERIF_SEED only rotates which subjects get the gap-pair product; every other enumeration is seed-independent']
    return rep


def replay(path):
    import json
    v = json.load(open(path))
    text = v['witness']['text']
    print('text: %r' % text)
    print('recorded:', v['sig'], v['witness']['detail'])
    print('compile now:', compile_text(text)[0])
    w = world.World(world.POP_ONE)
    res = w.run_script(text)
    print('run now: accepted=%r errors=%r out=%r' % (res.accepted, res.errors, [e for e in res.trace if e[0] == 'out']))
    return False
