"""C14 — switching units re-expresses settings without changing the light.

Pairs of executions on the real VM: `R; units...; set "a"; wait` against
`R; set "a"; wait` for register contents R on a grid inside the documented
ranges, every chain of <= 2 (thorough 4) `units` statements from each starting
mode, with every register printed before and after each switch.
"""
import colorsys
import itertools
import math

from .. import par, world
from ..cli import Report

MODES = ('logical', 'raw', 'rgb')
REGS = ('hue', 'saturation', 'brightness', 'kelvin', 'red', 'green', 'blue', 'duration', 'time')
TABLE = {
    ('logical', 'raw'): {'time', 'duration', 'hue', 'saturation', 'brightness'},
    ('raw', 'logical'): {'time', 'duration', 'hue', 'saturation', 'brightness'},
    ('rgb', 'raw'): {'time', 'duration', 'hue', 'saturation', 'brightness'},
    ('raw', 'rgb'): {'time', 'duration', 'red', 'green', 'blue'},
    ('rgb', 'logical'): {'hue', 'saturation', 'brightness'},
    ('logical', 'rgb'): {'red', 'green', 'blue'},
}
PRINT_ALL = ' '.join('print %s' % r for r in REGS)


def fmt(v):
    return repr(float(v)) if isinstance(v, float) else str(v)


def starts(tier):
    """(mode, register settings text) on the grid of the design"""
    out = []
    hues = [i * 7.5 for i in range(0, 49)]
    for h in hues:
        for s in (0, 12.5, 50, 100):
            for b in (0, 37.5, 100):
                out.append(('logical', 'hue %s saturation %s brightness %s kelvin 2700 duration 1.5 time 1.5' % (fmt(h), fmt(s), fmt(b))))
    for t, d in itertools.product((0, 0.001, 1.5, 1000), repeat=2):
        for col in ('hue 120 saturation 100 brightness 50', 'hue 300 saturation 25 brightness 87.5'):
            out.append(('logical', '%s kelvin 3500 duration %s time %s' % (col, fmt(d), fmt(t))))
    # a time of day pending in the time register: duration and colour still have to be re-expressed
    for col in ('hue 120 saturation 100 brightness 50', 'hue 300 saturation 25 brightness 87.5'):
        for d in (0, 0.001, 2.5, 1000):
            out.append(('logical', '%s kelvin 3500 duration %s time at 12:00' % (col, fmt(d))))
    for d in (0, 1, 2500):
        out.append(('raw', 'units raw hue 21845 saturation 65535 brightness 32768 kelvin 9000 duration %d time at 12:00 or 13:30' % d))
        out.append(('rgb', 'units rgb red 10 green 20 blue 90 kelvin 2700 duration %s time at *:15' % fmt(d / 1000.0)))
    raws = (0, 1, 257, 32767, 32768, 65534, 65535)
    for h, s, b in itertools.product(raws, repeat=3):
        out.append(('raw', 'units raw hue %d saturation %d brightness %d kelvin 2700 duration 1500 time 1500' % (h, s, b)))
    for t, d in itertools.product((0, 1, 1500, 1000000), repeat=2):
        out.append(('raw', 'units raw hue 21845 saturation 65535 brightness 32768 kelvin 9000 duration %d time %d' % (d, t)))
    pcts = [i * 12.5 for i in range(9)] if tier == 'thorough' else [0, 12.5, 50, 87.5, 100]
    for r, g, b in itertools.product(pcts, repeat=3):
        out.append(('rgb', 'units rgb red %s green %s blue %s kelvin 2700 duration 1.5 time 1.5' % (fmt(r), fmt(g), fmt(b))))
        # the same colour with stale values in the registers the current mode does not use
        out.append(('rgb', 'hue 200 saturation 45 brightness 35 units rgb red %s green %s blue %s kelvin 2700 duration 1.5 time 1.5'
                    % (fmt(r), fmt(g), fmt(b))))
    # kelvin is never altered, whatever its value: fractional and out-of-catalogue kelvins in every mode
    for k in (2500.5, 1, 0.25, 9000.75):
        out.append(('logical', 'hue 120 saturation 80 brightness 60 kelvin %s duration 1.5 time 1.5' % fmt(k)))
        out.append(('rgb', 'units rgb red 10 green 60 blue 30 kelvin %s duration 1.5 time 1.5' % fmt(k)))
        out.append(('raw', 'units raw hue 21845 saturation 52428 brightness 39321 kelvin %s duration 1500 time 1500' % fmt(k)))
    for h in (0, 7.5, 120, 352.5):
        for sat, b in ((0, 50), (100, 100), (37.5, 62.5)):
            out.append(('logical', 'red 90 green 10 blue 60 hue %s saturation %s brightness %s kelvin 2700 duration 1.5 time 1.5'
                        % (fmt(h), fmt(sat), fmt(b))))
            out.append(('raw', 'units rgb red 90 green 10 blue 60 units raw hue %d saturation %d brightness %d kelvin 2700 duration 1500 time 1500'
                        % (int(h / 360 * 65535), int(sat / 100 * 65535), int(b / 100 * 65535))))
    return out


def assigned_starts():
    """Start states reached through a switch followed by an assignment (literal, expression, variable,
    the register's own value, a colour read back from the light): the state the *next* switch starts from."""
    out = []
    bases = {'logical': ['hue 120 saturation 80 brightness 80 kelvin 2700 duration 1.5 time 1.5',
                         'hue 0 saturation 0 brightness 50 kelvin 2700 duration 1.5 time 1.5'],
             'raw': ['units raw hue 21845 saturation 52428 brightness 52428 kelvin 2700 duration 1500 time 1500'],
             'rgb': ['units rgb red 90 green 40 blue 10 kelvin 2700 duration 1.5 time 1.5']}
    regs_of = {'logical': (('hue', 200), ('saturation', 25), ('brightness', 40), ('duration', 3), ('time', 2)),
               'raw': (('hue', 40000), ('saturation', 16384), ('brightness', 26214), ('duration', 3000), ('time', 2000)),
               'rgb': (('red', 20), ('green', 45), ('blue', 70), ('duration', 3), ('time', 2))}
    for m0 in MODES:
        for base in bases[m0]:
            for m1 in MODES:
                for reg, val in regs_of[m1]:
                    forms = ['%s %s' % (reg, fmt(val)),
                             '%s {%s / 2}' % (reg, reg),
                             '%s {%s + 1}' % (reg, fmt(val)),
                             'assign v %s %s v' % (fmt(val), reg),
                             'assign v {%s / 2} %s v' % (reg, reg)]
                    for f in forms:
                        out.append((m1, '%s units %s %s' % (base, m1, f)))
                # the switch happens inside a routine (and inside a loop inside a routine) that the script calls
                out.append((m1, '%s define sw begin units %s end sw' % (base, m1)))
                out.append((m1, '%s define sw with u begin if {u > 0} units %s end sw 1' % (base, m1)))
                out.append((m1, '%s define sw begin repeat 2 begin units %s end end define sx begin sw end sx' % (base, m1)))
                out.append((m1, '%s units %s get "a"' % (base, m1)))
                out.append((m1, '%s units %s define r with x begin %s x end r 30'
                            % (base, m1, {'logical': 'brightness', 'raw': 'brightness', 'rgb': 'green'}[m1])))
    return out


def chains(maxlen):
    for n in range(1, maxlen + 1):
        for c in itertools.product(MODES, repeat=n):
            yield c


def to_rgb(raw):
    return colorsys.hsv_to_rgb(raw[0] / 65535.0, raw[1] / 65535.0, raw[2] / 65535.0)


def same_light(a, b, through_rgb):
    """a, b raw (h, s, b, k) as transmitted"""
    if a[3] != b[3]:
        return 'kelvin differs: %r vs %r' % (a[3], b[3])
    degenerate = min(a[1], b[1]) <= 1 or min(a[2], b[2]) <= 1
    if through_rgb or degenerate:
        ra, rb = to_rgb(a), to_rgb(b)
        if max(abs(x - y) for x, y in zip(ra, rb)) > 4.0 / 65535:
            return 'different colours: %r vs %r' % (a, b)
        return None
    dh = abs(a[0] - b[0])
    dh = min(dh, 65536 - dh, abs(65535 - dh))
    if dh > 1 or abs(a[1] - b[1]) > 1 or abs(a[2] - b[2]) > 1:
        return 'more than one raw unit apart: %r vs %r' % (a, b)
    return None


def run_text(w, text):
    w.reset()
    return w.run_script(text, cap=2000)


def check_pair(w, mode, regs, chain):
    base = '%s set "a" wait' % regs
    text = regs
    cur = mode
    for to in chain:
        text += ' %s units %s %s' % (PRINT_ALL, to, PRINT_ALL)
    text += ' set "a" wait'
    ra = run_text(w, text)
    rb = run_text(w, base)
    for r in (ra, rb):
        if not r.accepted or r.abort or r.raised:
            return ('units-run-problem', text, repr((r.errors, r.abort, r.raised)))
    sa = [e for e in ra.trace if e[0] == 'dev' and not str(e[2]).startswith('get')]
    sb = [e for e in rb.trace if e[0] == 'dev' and not str(e[2]).startswith('get')]
    if len(sa) != 1 or len(sb) != 1:
        return ('units-run-problem', text, 'device events %r / %r' % (sa, sb))
    through_rgb = 'rgb' in chain or mode == 'rgb'
    msg = same_light(sa[0][3], sb[0][3], through_rgb)
    if msg:
        kind = 'kelvin-altered-by-units-switch' if msg.startswith('kelvin') else 'units-switch-changes-transmitted-colour'
        return (kind, text, msg)
    if sa[0][4] != sb[0][4]:
        return ('units-switch-changes-duration', text, '%r vs %r ms' % (sa[0][4], sb[0][4]))
    if [e[1] for e in ra.trace if e[0] == 'wait_until'] != [e[1] for e in rb.trace if e[0] == 'wait_until']:
        return ('units-switch-changes-pending-time-of-day', text, '')
    wa = [e[1] for e in ra.trace if e[0] == 'wait']
    wb = [e[1] for e in rb.trace if e[0] == 'wait']
    if len(wa) != len(wb) or any(abs(x - y) > 0.0005 for x, y in zip(wa, wb)):
        return ('units-switch-changes-pending-delay', text, '%r vs %r s' % (wa, wb))
    # which registers were rewritten by each switch
    outs = [e[1] for e in ra.trace if e[0] == 'out']
    cur = mode
    for i, to in enumerate(chain):
        before = outs[i * 18:i * 18 + 9]
        after = outs[i * 18 + 9:i * 18 + 18]
        changed = {REGS[j] for j in range(9) if not _same(before[j], after[j])}
        allowed = TABLE.get((cur, to), set())
        if cur == to and changed:
            return ('switch-to-current-mode-changes-registers', text, 'units %s in %s mode changed %r' % (to, cur, sorted(changed)))
        if not changed <= allowed:
            return ('units-switch-rewrites-undocumented-register', text,
                    '%s -> %s changed %r' % (cur, to, sorted(changed - allowed)))
        if after[3] != before[3]:
            return ('kelvin-altered-by-units-switch', text, '%r -> %r' % (before[3], after[3]))
        cur = to
    return None


def _same(a, b):
    if isinstance(a, (int, float)) and isinstance(b, (int, float)):
        return a == b
    if hasattr(a, 'match') and hasattr(b, 'match'):
        return world.match_set(a) == world.match_set(b)
    return a == b and type(a) is type(b)


def _worker(rank, n, tier):
    w = world.World(world.POP_ONE)
    st = dict(pairs=0, viol={}, distinct=set())
    maxlen = 3 if tier == 'quick' else 4
    idx = 0
    chain_list = list(chains(maxlen))
    short = list(chains(2))
    work = [(m, r, c) for m, r in starts(tier) for c in chain_list] + \
           [(m, r, c) for m, r in assigned_starts() for c in short]
    for mode, regs, chain in work:
        if True:
            idx += 1
            if idx % n != rank:
                continue
            st['pairs'] += 1
            bad = check_pair(w, mode, regs, chain)
            if bad is not None:
                kind, text, detail = bad
                cur = st['viol'].get(kind)
                if cur is None or len(text) < len(cur[1]):
                    st['viol'][kind] = [(cur[0] if cur else 0), text, detail]
                st['viol'][kind][0] += 1
    return st


def run(tier, seed):
    rep = Report()
    res = par.run(_worker, (tier,))
    viol = {}
    for r in res:
        for kind, (cnt, text, detail) in r['viol'].items():
            cur = viol.get(kind)
            if cur is None or len(text) < len(cur[1]):
                viol[kind] = [(cur[0] if cur else 0) + cnt, text, detail]
            else:
                cur[0] += cnt
    for kind, (cnt, text, detail) in sorted(viol.items()):
        rep.violation(kind, '%s (%d pairs), e.g. `%s`: %s' % (kind, cnt, text, detail),
                      {'script': text, 'detail': detail, 'pairs': cnt})
    n_pairs = sum(r['pairs'] for r in res)
    rep.coverage = {
        'states': 2 * n_pairs, 'transitions': 2 * n_pairs,
        'traces_validated_against_impl': 2 * n_pairs, 'evaluations': n_pairs,
        'distinct_nontrivial': n_pairs,
        'rule': 'pairs of executions (with and without the chain of units statements) for every start state of the grid '
                '(hue 0..360 step 7.5 x saturation x brightness; raw boundary values cubed; rgb percentages cubed; time/duration '
                'sets) x every chain of <=%d units statements; start states reached by a switch followed by an assignment '
                '(literal / expression / variable / parameter / get) x every chain of <=2; distinct_nontrivial = pairs' % (3 if tier == 'quick' else 4),
        'exhaustive': True,
        'start_states': len(starts(tier)),
        'start_states_after_switch_and_assignment': len(assigned_starts()),
        'chains': len(list(chains(3 if tier == 'quick' else 4))),
        'samples': ['hue 7.5 saturation 12.5 brightness 37.5 kelvin 2700 duration 1.5 time 1.5 ... units raw ... units rgb ... set "a" wait'],
    }
    rep.assumptions = ['colours compared as colours (RGB within 4/65535) when the chain passes through rgb or saturation/brightness is (nearly) zero; '
                       'otherwise within one raw unit per component, hue cyclic']
    return rep


def replay(path):
    import json
    v = json.load(open(path))
    text = v['witness']['script']
    w = world.World(world.POP_ONE)
    res = run_text(w, text)
    print('script:', text)
    print('recorded:', v['sig'], v['witness']['detail'])
    for e in res.trace:
        print('   ', e)
    return False
