"""C13 — the light directory stays self-consistent over any discovery/expiry history.

Shape B: explicit-state breadth-first search over the real LightSet (over the
real LifxLanApi and the simulated LAN, virtual time at light.time).  Events:
discover(snapshot) for every population snapshot over names {a,b,c} x groups
{g,h} x locations {p,q} x absent, failed discover, advance(half age + 0.25), advance(age + 0.5), expire, refresh.  Canonical state = per name (group, location,
age) + the index structures; the invariant and a reference directory are
checked in every state; the search runs to a fixpoint.

SortedList: every subset of a 6-name alphabet x every probe for next/prev, and
the iteration system (list, cursor) under interleaved add/remove events.
"""
import itertools

from .. import par, simnet, world
from ..cli import Report

from bardolph.controller import light as light_mod
from bardolph.lib.sorted_list import SortedList

MAX_AGE = 100
NAMES = ('a', 'b', 'c')
PLACES = [None] + [(g, l) for g in ('g', 'h') for l in ('p', 'q')]


class VTime:
    def __init__(self):
        self.now = 1000.0

    def time(self):
        return self.now


def events(names):
    ev = [('discover', snap) for snap in itertools.product(PLACES, repeat=len(names))]
    ev += [('failed-discover',), ('advance', MAX_AGE / 2 + 0.25), ('advance', MAX_AGE + 0.5), ('expire',), ('refresh',)]
    return ev


class Sys:
    """The real directory plus the reference model, driven by events."""

    def __init__(self, names):
        self.names = names
        self.vt = VTime()
        light_mod.time = self.vt
        self.w = world.World((), overrides={'light_gc_time': MAX_AGE})
        self.ls = self.w.light_set
        self.model = {}            # name -> (group, location, birth)
        self.fail = False
        self.last_event_result = None

    def apply(self, ev):
        kind = ev[0]
        if kind == 'advance':
            self.vt.now += ev[1]
            return
        if kind in ('discover', 'refresh', 'failed-discover'):
            if kind == 'discover':
                devs = [simnet.SimDevice(self.w.net, n, pl[0], pl[1]) for n, pl in zip(self.names, ev[1]) if pl is not None]
                self.w.devices[:] = devs
                simnet.SimLan.current_devices = self.w.devices
            self.w.net.fault = (lambda label, op: True) if kind == 'failed-discover' else None
            before = directory(self.ls)
            if kind == 'refresh':
                self.ls.refresh()
                ok = True
            else:
                ok = self.ls.discover()
            self.w.net.fault = None
            self.last_event_result = ok
            if kind == 'failed-discover':
                if self.w.devices and ok is not False:
                    return 'failed-discovery-reported-success'
                if directory(self.ls) != before:
                    return 'failed-discovery-changed-directory'
                return
            for d in self.w.devices:
                self.model[d.label] = (d.group, d.location, self.vt.now)
            if kind == 'refresh':
                self._expire_model()
            return
        if kind == 'expire':
            self.ls._garbage_collect()
            self._expire_model()
            return

    def _expire_model(self):
        for n in [n for n, (_, _, b) in self.model.items() if self.vt.now - b > MAX_AGE]:
            del self.model[n]

    def canon(self):
        ages = tuple(sorted((n, g, l, min(self.vt.now - b, MAX_AGE * 1.5)) for n, (g, l, b) in self.model.items()))
        return (ages, directory(self.ls), tuple(sorted(d.label for d in self.w.devices)),
                tuple(sorted((d.label, d.group, d.location) for d in self.w.devices)))

    def invariant(self):
        """-> None | (kind, detail)"""
        ls = self.ls
        names = list(ls.get_light_names())
        if names != sorted(set(names)):
            return ('name-list-not-sorted-or-duplicated', repr(names))
        if set(names) != set(ls._lights.keys()) or ls.get_light_count() != len(names):
            return ('name-list-differs-from-light-map', '%r vs %r' % (names, sorted(ls._lights)))
        if sorted(names) != sorted(self.model):
            return ('known-lights-differ-from-reference', 'directory %r, reference %r' % (names, sorted(self.model)))
        for kind, getter_names, getter_members, idx in (
                ('group', ls.get_group_names, ls.get_group_lights, 0),
                ('location', ls.get_location_names, ls.get_location_lights, 1)):
            set_names = list(getter_names())
            if set_names != sorted(set(set_names)):
                return ('%s-name-list-not-sorted' % kind, repr(set_names))
            want = {}
            for n, rec in self.model.items():
                want.setdefault(rec[idx], []).append(n)
            if sorted(set_names) != sorted(want):
                return ('%s-names-differ-from-non-empty-ones' % kind, 'directory %r, reference %r' % (set_names, sorted(want)))
            for sn in set_names:
                members = list(getter_members(sn))
                if not members:
                    return ('empty-%s-kept' % kind, sn)
                if members != sorted(set(members)):
                    return ('%s-members-not-sorted' % kind, repr(members))
                if members != sorted(want[sn]):
                    return ('%s-membership-stale' % kind, '%s: directory %r, reference %r' % (sn, members, sorted(want[sn])))
            if getter_members('no-such-' + kind) is not None:
                return ('unknown-%s-not-none' % kind, '')
        for n in names:
            l = ls.get_light(n)
            if l is None or l.get_name() != n:
                return ('light-map-entry-wrong', n)
            g, loc, _ = self.model[n]
            if l.get_group() != g or l.get_location() != loc:
                return ('light-object-stale', '%s reports %s/%s, last reported %s/%s' % (n, l.get_group(), l.get_location(), g, loc))
        return None


def directory(ls):
    return (tuple(ls.get_light_names()),
            tuple((g, tuple(ls.get_group_lights(g))) for g in ls.get_group_names()),
            tuple((l, tuple(ls.get_location_lights(l))) for l in ls.get_location_names()))


def build(names, history, observe_each=False):
    """observe_each: every getter is called (and the invariant checked) after every event, as a client that
    looks at the directory between operations does; otherwise only the final state is looked at.  The two
    modes are searched separately, because looking may itself leave state behind (a cache)."""
    s = Sys(names)
    bad = None
    for ev in history:
        r = s.apply(ev)
        if r and bad is None:
            bad = (r, '')
        if observe_each and bad is None:
            bad = s.invariant()
    return s, bad


def _expand(args):
    names, histories = args[:2]
    observe_each = len(args) > 2 and args[2]
    evs = events(names)
    out = []
    viol = []
    n_trans = 0
    for hist in histories:
        for ev in evs:
            h2 = hist + (ev,)
            try:
                s, bad = build(names, h2, observe_each)
                bad = bad or s.invariant()
            except Exception as ex:           # an operation of the directory raised
                import traceback
                where = traceback.extract_tb(ex.__traceback__)[-1]
                s, bad = None, ('directory-operation-raises', '%s: %s at %s:%s' % (type(ex).__name__, ex, where.filename.rsplit('/', 1)[-1], where.name))
            n_trans += 1
            if bad is not None:
                viol.append((bad[0], bad[1], h2))
                continue
            out.append((s.canon(), h2))
    return out, viol, n_trans


def bfs(names, max_depth, observe_each=False):
    s0, _ = build(names, ())
    seen = {s0.canon()}
    frontier = [()]
    transitions = 0
    viol = {}
    depth = 0
    fixpoint = False
    while frontier and depth < max_depth:
        depth += 1
        chunks = [frontier[i::par.NPROC] for i in range(par.NPROC)]
        results = par.run_tasks(_expand, [(names, c, observe_each) for c in chunks if c])
        nxt = []
        for out, v, n in results:
            transitions += n
            for kind, detail, hist in v:
                cur = viol.get(kind)
                if cur is None or len(hist) < len(cur[1]):
                    viol[kind] = [(cur[0] if cur else 0), hist, detail]
                viol[kind][0] += 1
            for canon, hist in out:
                if canon not in seen:
                    seen.add(canon)
                    nxt.append(hist)
        frontier = nxt
        if not frontier:
            fixpoint = True
    return dict(states=len(seen), transitions=transitions, depth=depth, fixpoint=fixpoint), viol


# ---------------------------------------------------------------- SortedList
ALPHA = ['b', 'd', 'f', 'h', 'j', 'l']
PROBES = ['a', 'b', 'c', 'd', 'e', 'f', 'g', 'h', 'i', 'j', 'k', 'l', 'm']


ALPHA_CASE = ['B', 'd', 'F', 'h', 'J', 'l']       # capitals sort before small letters


def sorted_list_probes():
    n = 0
    viol = []
    for alpha in (ALPHA, ALPHA_CASE):
      for k in range(len(alpha) + 1):
        for sub in itertools.combinations(alpha, k):
            for order, how in ((sub, 'add'), (tuple(reversed(sub)), 'add'), (tuple(reversed(sub)), 'init')):
                if how == 'init':
                    sl = SortedList(list(order))      # built from an iterable, as the group/location name lists are
                else:
                    sl = SortedList()
                    for x in order:
                        sl.add(x)
                if list(sl) != sorted(sub):
                    viol.append(('sortedlist-add-not-sorted', (order, list(sl))))
                for p in PROBES:
                    n += 1
                    want_next = min((x for x in sub if x > p), default=None)
                    want_prev = max((x for x in sub if x < p), default=None)
                    if sl.next(p) != want_next:
                        viol.append(('sortedlist-next-wrong', (sub, p, sl.next(p), want_next)))
                    if sl.prev(p) != want_prev:
                        viol.append(('sortedlist-prev-wrong', (sub, p, sl.prev(p), want_prev)))
                    if sl.has(p) != (p in sub):
                        viol.append(('sortedlist-has-wrong', (sub, p)))
                if sl.first() != (min(sub) if sub else None) or sl.last() != (max(sub) if sub else None):
                    viol.append(('sortedlist-first-last-wrong', (sub,)))
                # add twice / remove absent are no-ops
                for x in ALPHA:
                    sl2 = SortedList(sub)
                    sl2.add(x)
                    sl2.add(x)
                    if list(sl2) != sorted(set(sub) | {x}):
                        viol.append(('sortedlist-duplicate', (sub, x)))
                    sl2.remove(x)
                    sl2.remove(x)
                    if list(sl2) != sorted(set(sub) - {x}):
                        viol.append(('sortedlist-remove-wrong', (sub, x)))
    return n, viol


def _iteration_worker(rank, n, max_mut):
    """(list, cursor) under interleaved add/remove: every element that remains
    throughout is visited exactly once; the walk terminates."""
    names = ALPHA[:5]
    muts = [(op, x) for op in ('add', 'remove') for x in names + ['c', 'm']]
    count = 0
    viol = []
    idx = 0
    for k in range(0, 6):
        for sub in itertools.combinations(names, k):
            for forward in (True, False):
                for nm in range(0, max_mut + 1):
                    # a mutation happens after the `step`-th visit (step 0 = before the first)
                    for steps in itertools.combinations_with_replacement(range(0, k + 2), nm):
                        for ms in itertools.product(muts, repeat=nm):
                            idx += 1
                            if idx % n != rank:
                                continue
                            count += 1
                            sl = SortedList(sub)
                            plan = sorted(zip(steps, range(nm)))
                            removed, visited = set(), []
                            pi = 0
                            step = 0

                            def do_muts():
                                nonlocal pi
                                while pi < len(plan) and plan[pi][0] <= step:
                                    op, x = ms[plan[pi][1]]
                                    if op == 'add':
                                        sl.add(x)
                                    else:
                                        sl.remove(x)
                                        removed.add(x)
                                    pi += 1
                            do_muts()
                            cur = sl.first() if forward else sl.last()
                            guard = 0
                            while cur is not None and guard < 40:
                                guard += 1
                                visited.append(cur)
                                step += 1
                                do_muts()
                                cur = sl.next(cur) if forward else sl.prev(cur)
                            stay = [x for x in sub if x not in removed]
                            if guard >= 40:
                                viol.append(('iteration-does-not-terminate', (sub, ms, steps)))
                            elif any(visited.count(x) != 1 for x in stay):
                                viol.append(('iteration-misses-or-repeats-a-remaining-element',
                                             (sub, forward, list(zip(steps, ms)), visited)))
                            elif len(visited) != len(set(visited)):
                                viol.append(('iteration-visits-an-element-twice', (sub, forward, list(zip(steps, ms)), visited)))
    return count, viol[:20]


def vm_iterations():
    """The VM's iteration instructions (DISC/DNEXT over lights, groups, locations; DISCM/DNEXTM over the members of
    a group or location; both directions) on the real LightSet, with one change of the population applied after the
    k-th step, for every k: the walk ends, never raises, and visits every name that stays throughout exactly once."""
    from bardolph.vm.machine import Registers
    from bardolph.vm.vm_codes import Operand
    from bardolph.vm.vm_discover import VmDiscover
    base = (('a', 'g', 'p'), ('b', 'g', 'q'), ('c', 'h', 'q'), ('d', 'g', 'p'))
    changes = [('none',), ('move', 'a', 'h', 'q'), ('move', 'b', 'h', 'p'), ('move', 'c', 'g', 'p'),
               ('vanish', ('a',)), ('vanish', ('b',)), ('vanish', ('a', 'b', 'd')), ('vanish', ('c',)),
               ('vanish', ('a', 'b', 'c', 'd')), ('appear', 'bb', 'g', 'q'), ('appear', 'e', 'k', 'r')]
    walks = [('all', Operand.LIGHT, None), ('sets', Operand.GROUP, None), ('sets', Operand.LOCATION, None),
             ('members', Operand.GROUP, 'g'), ('members', Operand.GROUP, 'h'), ('members', Operand.LOCATION, 'q'),
             ('members', Operand.LOCATION, 'p')]
    n = 0
    viol = []
    for kind, operand, owner in walks:
        for forward in (True, False):
            for change in changes:
                for k in range(0, 5):
                    n += 1
                    sysm = Sys(('a', 'b', 'c', 'd'))
                    devs = [simnet.SimDevice(sysm.w.net, nm, g, l) for nm, g, l in base]
                    sysm.w.devices[:] = devs
                    simnet.SimLan.current_devices = sysm.w.devices
                    sysm.ls.discover()
                    reg = Registers()
                    reg.operand = operand
                    reg.disc_forward = forward
                    vd = VmDiscover(None, reg)

                    def names_now():
                        ls = sysm.ls
                        if kind == 'all':
                            return list(ls.get_light_names())
                        if kind == 'sets':
                            return list(ls.get_group_names() if operand is Operand.GROUP else ls.get_location_names())
                        got = ls.get_group_lights(owner) if operand is Operand.GROUP else ls.get_location_lights(owner)
                        return list(got or [])
                    before = names_now()
                    visited = []
                    what = (kind, operand.name, owner, 'forward' if forward else 'backward', change, 'after step %d' % k)
                    try:
                        if kind == 'members':
                            vd.discm(owner)
                        else:
                            vd.disc()
                        steps = 0
                        while reg.result is not Operand.NULL and reg.result is not None and steps < 20:
                            visited.append(reg.result)
                            steps += 1
                            if steps == k + 1 or (k == 0 and steps == 1):
                                pass
                            if steps == k:
                                if change[0] == 'move':
                                    d = next(x for x in sysm.w.devices if x.label == change[1])
                                    d.group, d.location = change[2], change[3]
                                    sysm.ls.discover()
                                elif change[0] == 'vanish':
                                    sysm.w.devices[:] = [x for x in sysm.w.devices if x.label not in change[1]]
                                    sysm.ls.discover()
                                    sysm.vt.now += MAX_AGE + 1
                                    for x in sysm.w.devices:
                                        pass
                                    sysm.ls.discover()          # the remaining lights are seen again, the others are too old
                                    sysm.ls._garbage_collect()
                                elif change[0] == 'appear':
                                    sysm.w.devices.append(simnet.SimDevice(sysm.w.net, change[1], change[2], change[3]))
                                    sysm.ls.discover()
                            if kind == 'members':
                                vd.dnextm(owner, visited[-1])
                            else:
                                vd.dnext(visited[-1])
                        after = names_now()
                        stay = [x for x in before if x in after]
                        if steps >= 20:
                            viol.append(('vm-iteration-does-not-terminate', what + (visited,)))
                        elif any(visited.count(x) != 1 for x in stay) and change[0] != 'move':
                            viol.append(('vm-iteration-misses-or-repeats-a-remaining-name', what + (before, after, visited)))
                        elif len(visited) != len(set(visited)):
                            viol.append(('vm-iteration-visits-a-name-twice', what + (visited,)))
                    except Exception as ex:
                        viol.append(('vm-iteration-raises', what + ('%s: %s' % (type(ex).__name__, ex),)))
    return n, viol


def run(tier, seed):
    rep = Report()
    if tier == 'quick':
        stats, viol = bfs(NAMES[:2], 14)
        s3, v3 = bfs(NAMES, 4)
        stats = dict(states=stats['states'] + s3['states'], transitions=stats['transitions'] + s3['transitions'],
                     depth=stats['depth'], fixpoint=stats['fixpoint'], three_name_depth=s3['depth'])
        for k, v in v3.items():
            viol.setdefault(k, v)
    else:
        stats, viol = bfs(NAMES, 14)
    # the same search with every getter called after every event
    so, vo = bfs(NAMES[:2], 14, True) if tier == 'quick' else bfs(NAMES, 14, True)
    stats['states'] += so['states']
    stats['transitions'] += so['transitions']
    stats['fixpoint'] = stats['fixpoint'] and so['fixpoint']
    for k, v in vo.items():
        viol.setdefault(k, v)
    for kind, (cnt, hist, detail) in sorted(viol.items()):
        rep.violation(kind, '%s (%d transitions): after %r: %s' % (kind, cnt, hist, detail),
                      {'history': hist, 'detail': detail, 'part': 'directory'})
    n_vm, vviol = vm_iterations()
    seen_vm = set()
    for kind, wit in vviol:
        if kind not in seen_vm:
            seen_vm.add(kind)
            rep.violation(kind, '%s: %r' % (kind, wit), {'case': [str(x) for x in wit], 'part': 'vm-iteration'})
    world.World(())
    n_probe, pviol = sorted_list_probes()
    ires = par.run(_iteration_worker, (2 if tier == 'quick' else 3,))
    n_iter = sum(r[0] for r in ires)
    seen = set()
    for kind, wit in pviol + [v for r in ires for v in r[1]]:
        if kind not in seen:
            seen.add(kind)
            rep.violation(kind, '%s: %r' % (kind, wit), {'case': wit, 'part': 'sortedlist'})
    rep.coverage = {
        'states': stats['states'], 'transitions': stats['transitions'],
        'traces_validated_against_impl': stats['transitions'] + n_probe + n_iter,
        'evaluations': stats['transitions'] + n_probe + n_iter,
        'distinct_nontrivial': stats['states'],
        'rule': 'BFS over directory histories: %d events per state (125 population snapshots over names a,b,c x groups g,h x '
                'locations p,q x absent; failed discover; two time advances; expire; refresh), canonical state = per name '
                '(group, location, age capped at 1.5 x max age) + the three index structures + the population on the network; '
                'each transition rebuilds a fresh real LightSet and replays the history; searched twice: looking at the directory '
                'only in the state reached, and calling every getter after every event' % len(events(NAMES)),
        'exhaustive': True,
        'fixpoint_reached': stats['fixpoint'],
        'bfs_depth': stats['depth'],
        'names': 'a,b to a fixpoint + a,b,c to depth 4' if tier == 'quick' else 'a,b,c to a fixpoint',
        'sortedlist_probes': n_probe,
        'vm_iteration_walks': n_vm,
        'iteration_systems': n_iter,
        'samples': [[('discover', (('g', 'p'), ('g', 'q'), None)), ('advance', 150.0), ('discover', (None, ('h', 'q'), ('g', 'p'))), ('expire',)]],
    }
    rep.assumptions = ['light.time replaced by a virtual clock; every state is checked against a reference directory '
                       '(dict name -> (group, location, birth)) in addition to the structural invariants']
    return rep


def replay(path):
    import json
    v = json.load(open(path))
    wit = v['witness']
    if wit.get('part') == 'directory':
        hist = tuple((e[0],) if len(e) == 1 else (e[0], tuple(tuple(x) if isinstance(x, list) else x for x in e[1])
                                                   if isinstance(e[1], list) else e[1]) for e in wit['history'])
        s, bad = build(NAMES, hist)
        print('history:', hist)
        print('directory:', directory(s.ls))
        print('reference:', s.model)
        bad = bad or s.invariant()
        print('judgement:', bad)
        return bad is None
    print(v['what'])
    return False
