"""C09 — a stop request ends a running script promptly and is never lost.

Shape S on the real JobControl + ScriptJob + Machine + Clock (over virtual
time) + simulated LAN.  For each (script, stop API) pair the requester's stop
sits behind a gate which the explorer opens at EVERY scheduling point after the
job thread has been started (a free choice), combined with up to `bound`
further deviations (a preemption, a non-default successor, or a stall) anywhere.
"""
from .. import par, world
from ..cli import Report
from ..explore import choice, vthreads

from bardolph.controller.script_job import ScriptJob
from bardolph.lib import clock as clock_mod
from bardolph.lib import job_control

SCRIPTS = {
    'straight': 'on "a" on "a" on "a"',
    'infinite': 'repeat on "a"',
    'timed': 'time 100000 on "a" on "a"',
    'time-of-day': 'time at 23:59 on "a"',
    'short-timed': 'time 2 on "a" on "a"',
}
FOLLOWER = 'on "b" on "b"'
APIS = ('agent', 'stop_job', 'stop_current', 'stop_all')
POP = (world.Dev('a', 'g', 'p'), world.Dev('b', 'g', 'p'))
HORIZON = 40.0
GATE_POINTS = 70
WINDOW_AFTER_STOP = 60

_TRACED = {
    'lib/clock.py': None,
    'vm/machine.py': ('run', 'stop', 'reset'),
    'controller/script_job.py': ('execute', 'request_stop'),
    'lib/job_control.py': ('stop_job', 'stop_current', 'stop_background', 'clear_queue', 'request_stop',
                           '_execute_and_call', 'execute'),
}


def trace_filter(code):
    for suffix, names in _TRACED.items():
        if code.co_filename.endswith(suffix):
            return names is None or code.co_name in names
    return False


def execute(script_name, api, chooser, stall=True, rerun=False, gate_points=None, window=None, opcode_points=False, arm='start'):
    background = api.startswith(('bg:', 'bgonly:'))
    with_follower = not api.startswith('bgonly:')
    base_api = api.split(':')[-1]
    gate_points = GATE_POINTS if gate_points is None else gate_points
    window = WINDOW_AFTER_STOP if window is None else window
    from bardolph.vm import machine as _machine_mod
    from bardolph.controller import script_job as _script_job_mod
    sched = vthreads.Scheduler(chooser, horizon=HORIZON, max_steps=60000 if opcode_points else 30000, trace_filter=trace_filter, stall=stall,
                               opcode_points=opcode_points, trace_modules=(clock_mod, job_control, _machine_mod, _script_job_mod))
    w = world.World(POP, clock='real', overrides={'sleep_time': 1.0, 'manifest_file_name': None})
    shim = vthreads.ShimThreadingModule(sched, ['requester', 'job', 'clock', 'follower', 'clock2', 'rerun', 'clock3'] +
                                        ['extra%d' % i for i in range(8)])
    shimtime = vthreads.ShimTime(sched)
    job_control.threading = shim
    clock_mod.threading = shim
    clock_mod.time = shimtime
    clock_mod.datetime = vthreads.ShimDatetimeClass(sched)
    w.net.on_request = lambda label, op: (sched.log('dev-req', label, op), sched.point('dev-req'))
    obs = dict(final=None)
    gate = dict(armed=False, want=False, ready=False, opened=False, seen=0, event=shim.Event(), opened_at=None)

    def extra(s):
        if gate['opened'] and s.choices_open and s.points > gate['close_at']:
            s.choices_open = False         # deviations are offered up to WINDOW_AFTER_STOP points after the stop
        if arm == 'first-tick' and not gate['want'] and s.now >= 1.0:
            gate['want'] = True            # the clock thread has just woken up for its first tick
        if not gate['armed'] and gate['want'] and gate['ready']:
            gate['armed'] = True           # ready: the requester has been handed the agent it is to stop
            if arm == 'first-tick':
                s.choices_open = True      # deviations are offered from here on only
        if not gate['armed'] or gate['opened']:
            return ()
        gate['seen'] += 1
        if gate['seen'] > gate_points:
            return (('open-gate-forced', None, open_gate),)
        return (('open-gate', 0, open_gate),)

    def open_gate(s):
        gate['opened'] = True
        gate['close_at'] = s.points + window
        gate['opened_at'] = len(s.events)
        s.log('gate-opened')
        gate['event']._flag = True
        for t in s.threads:
            if t.state == 'blocked' and t.blocked_on == ('event', id(gate['event'])):
                s._wake(t, 'event')
                return t
        return None
    sched.extra = extra
    if arm == 'first-tick':
        sched.choices_open = False

    def instrument(job, tag):
        m = job._machine
        for op, fn in list(m._fn_table.items()):
            def stepped(fn=fn, op=op):
                sched.log('inst', tag, op.name)
                if tag == 'j' and (arm == 'first-inst' or (arm == 'wait-inst' and op.name == 'WAIT')):
                    gate['want'] = True           # narrow windows start when the script begins to execute / to wait
                return fn()
            m._fn_table[op] = stepped
        real_execute = job.execute

        def execute_logged():
            sched.log('job-start', tag)
            try:
                real_execute()
            finally:
                if not sched.aborting:          # not while the execution is being torn down
                    sched.log('job-end', tag)
        job.execute = execute_logged
        real_stop = job.request_stop

        def stop_logged():
            sched.log('stop-delivered', tag)
            return real_stop()
        job.request_stop = stop_logged

    def main():
        from web import web_app
        app = web_app.WebApp()                 # settings: manifest_file_name None -> no manifest is read
        jc = app._jobs
        job = ScriptJob.from_string(SCRIPTS[script_name])
        follower = ScriptJob.from_string(FOLLOWER)
        instrument(job, 'j')
        instrument(follower, 'f')

        def requester():
            gate['event'].wait()
            sched.log('stop-call', api)
            try:
                if base_api == 'agent':
                    agent_box[0].request_stop()
                elif base_api == 'stop_job':
                    jc.stop_job('j')
                elif base_api == 'stop_current':
                    jc.stop_current()
                else:
                    app.stop_all()             # the real web application's stop-all over this controller
                sched.log('stop-ret', api)
            except vthreads._Unwind:
                raise
            except BaseException as ex:
                sched.log('stop-raised', repr(ex))
        agent_box = [None]
        rq = shim.Thread(target=requester)
        rq.start()
        agent_box[0] = jc.spawn_job(job, 'j') if background else jc.add_job(job, 'j')
        gate['ready'] = True
        if arm == 'start':
            gate['want'] = True
        if with_follower:
            jc.add_job(follower, 'f')
        for _ in range(int(HORIZON) + 5):
            if not jc.has_jobs():
                break
            shimtime.sleep(1.0)
        sched.log('quiescent', not jc.has_jobs())
        if not gate['opened']:
            open_gate(sched)
        rq.join()
        if rerun:
            sched.log('requeue')
            jc.add_job(job, 'j2')
            for _ in range(int(HORIZON) + 5):
                if not jc.has_jobs():
                    break
                shimtime.sleep(1.0)
        obs['final'] = dict(has_jobs=jc.has_jobs(), queued=[a.name for a in jc.get_queued()])
    verdict = sched.run(main)
    obs.update(verdict=verdict, events=sched.events, errors=sched.errors, now=sched.now,
               points=sched.points, gate_at=gate['opened_at'])
    return obs


def judge(script_name, api, obs, rerun=False):
    """-> None | (kind, detail)"""
    with_follower = not api.startswith('bgonly:')
    api = api.split(':')[-1]
    ev = obs['events']
    what = [e[2] for e in ev]
    stop_ret = what.index('stop-ret') if 'stop-ret' in what else None
    raised = [e for e in ev if e[2] == 'stop-raised']
    job_end = next((i for i, e in enumerate(ev) if e[2:4] == ('job-end', 'j')), None)
    job_start = next((i for i, e in enumerate(ev) if e[2:4] == ('job-start', 'j')), None)
    first_inst = next((i for i, e in enumerate(ev) if e[2:4] == ('inst', 'j')), None)
    finite = script_name in ('straight', 'short-timed')
    stop_call = what.index('stop-call') if 'stop-call' in what else None
    # was the stop due to act on this run?  (issued before the job ended)
    due = stop_call is not None and (job_end is None or stop_call < job_end)
    if raised and due:
        return ('stop-call-raises', raised[0][3])
    v = obs['verdict']
    if v == 'HANG':
        return ('harness-hang', '')
    if script_name in ('timed', 'time-of-day') and stop_call is not None and due:
        # the script sat in a wait that cannot end by itself within the horizon when the stop was issued: the
        # instruction in progress is that wait, and nothing may begin after it (whether or not the call has returned)
        requeue_at = what.index('requeue') if 'requeue' in what else len(ev)
        before = [e for e in ev[:stop_call] if e[2:4] == ('inst', 'j')]
        later = [e for i, e in enumerate(ev) if stop_call < i < requeue_at and e[2:4] == ('inst', 'j')]
        if before and before[-1][4] == 'WAIT' and later:
            return ('instruction-begins-after-a-stop-issued-during-a-wait',
                    '%d instructions began after the stop was issued while the script waited: %r' % (len(later), later[:2]))
    if stop_ret is not None and due and (job_end is None or job_end > stop_ret):
        # the stop returned while the run was still going: it must end promptly
        after = [e for e in ev[stop_ret:] if e[2:4] == ('inst', 'j') and (rerun is False or True)]
        requeue = what.index('requeue') if 'requeue' in what else len(ev)
        after = [e for i, e in enumerate(ev) if stop_ret < i < requeue and e[2:4] == ('inst', 'j')]
        ended_in_time = job_end is not None
        # the stop request was *issued* before the run's first VM instruction began (it may return later)
        early = first_inst is None or stop_call < first_inst
        if not ended_in_time:
            kind = {'infinite': 'stopped-script-keeps-running', 'timed': 'stopped-script-waits-the-delay-out',
                    'time-of-day': 'stopped-time-of-day-wait-never-ends'}.get(script_name, 'stopped-script-does-not-end')
            if early:
                return ('stop-before-first-instruction-lost', 'stop issued before the first instruction; the run went on (verdict %s)' % v)
            return (kind + (':' + v.lower() if v else ''), 'stop returned at event %d, job never ended (verdict %s, t=%.1f)' % (stop_ret, v, obs['now']))
        if len(after) > 1:
            if early:
                return ('stop-before-first-instruction-lost', '%d instructions began after the stop returned' % len(after))
            return ('instructions-begin-after-stop', '%d instructions began after the stop returned: %r' % (len(after), after[:3]))
    if v in ('DEADLOCK', 'SPIN', 'OVERRUN'):
        if not finite and not due and stop_call is None:
            return ('harness-stop-never-issued', v)
        return (v.lower(), 'verdict %s at t=%.1f' % (v, obs['now']))
    for name, err in obs['errors']:
        return ('exception-escapes-thread', '%s: %s' % (name, err))
    # follower
    f_cmds = [e for e in ev if e[2] == 'dev-req' and e[3] == 'b']
    f_started = any(e[2:4] == ('job-start', 'f') for e in ev)
    f_stopped = any(e[2:4] == ('stop-delivered', 'f') for e in ev)
    if f_stopped and api in ('agent', 'stop_job'):
        return ('stop-aimed-at-one-job-delivered-to-another', 'the follower received the stop issued for job j')
    if f_stopped and api in ('stop_current', 'stop_all'):
        pass        # the first job had ended and the follower was the current job: it was the target
    elif api == 'stop_all' and not f_started:
        pass        # cleared from the queue before it started: stop-all leaves nothing to start
    elif not with_follower:
        pass
    elif len(f_cmds) != 2:
        return ('follower-did-not-run-normally', '%d of 2 commands, started=%r' % (len(f_cmds), f_started))
    if obs['final'] is None or obs['final']['has_jobs']:
        return ('controller-not-drained', repr(obs['final']))
    if rerun and finite:
        requeue = what.index('requeue')
        n_a = len([e for e in ev[requeue:] if e[2] == 'dev-req' and e[3] == 'a'])
        want = 3 if script_name == 'straight' else 2
        if n_a != want:
            return ('rerun-after-stop-incomplete', '%d of %d commands in the re-queued run' % (n_a, want))
    return None


def _explore(args):
    script_name, api, bound, shard, rerun, gate_points, window = args[:7]
    opc = len(args) > 7 and args[7]
    arm = args[8] if len(args) > 8 else 'start'
    st = dict(execs=0, points=0, outcomes=set(), viol={}, gate_positions=set())

    def run(ch):
        return execute(script_name, api, ch, stall=True, rerun=rerun, gate_points=gate_points, window=window, opcode_points=opc, arm=arm)
    verdicts = {}

    def expand(ch, obs):
        bad = judge(script_name, api, obs, rerun)
        verdicts[tuple(ch.choices)] = bad
        return bad is None           # do not branch below an execution that already violates
    for ch, obs in choice.explore(run, bound=bound, shard=shard, expand=expand):
        st['execs'] += 1
        st['points'] += obs['points']
        st['gate_positions'].add(obs['gate_at'])
        st['outcomes'].add((obs['verdict'], len([e for e in obs['events'] if e[2] == 'dev-req'])))
        bad = verdicts.pop(tuple(ch.choices))
        if bad is None and st['execs'] % 53 == 0:
            obs2 = execute(script_name, api, choice.Chooser(ch.choices), stall=True, rerun=rerun, gate_points=gate_points, window=window, opcode_points=opc, arm=arm)
            if obs2['events'] != obs['events']:
                bad = ('harness-nondeterministic-replay', '')
        if bad is not None:
            kind, detail = bad
            cur = st['viol'].get(kind)
            if cur is None or len(ch.choices) < len(cur[1]):
                st['viol'][kind] = [(cur[0] if cur else 0), ch.choices, detail]
            st['viol'][kind][0] += 1
    st['outcomes'] = len(st['outcomes'])
    st['gate_positions'] = len(st['gate_positions'])
    return st


def plan(tier):
    """(script, api, bound, shards, rerun, gate_points, window)"""
    out = []
    deep = {('timed', a) for a in APIS} | {('time-of-day', 'stop_job'), ('infinite', 'stop_current'),
                                           ('straight', 'agent'), ('short-timed', 'stop_job')}
    for s in ('straight', 'infinite', 'timed', 'time-of-day', 'short-timed'):
        for api in APIS:
            rr = s in ('straight', 'short-timed')
            if tier == 'quick':
                if s == 'short-timed' and api != 'stop_job':
                    continue
                if (s, api) in deep:
                    out.append((s, api, 1, 16, rr, GATE_POINTS, WINDOW_AFTER_STOP))
                else:
                    out.append((s, api, 0, 1, rr, GATE_POINTS, WINDOW_AFTER_STOP))
            else:
                out.append((s, api, 1, 16, rr, GATE_POINTS, WINDOW_AFTER_STOP))
    # the stop arriving "as the script finishes": gate positions over the whole run of the finite scripts
    out.append(('straight', 'stop_job', 1, 16, True, 260, 40))
    out.append(('straight', 'agent', 0 if tier == 'quick' else 1, 1 if tier == 'quick' else 16, True, 260, 40))
    out.append(('straight', 'stop_current', 0 if tier == 'quick' else 1, 1 if tier == 'quick' else 16, True, 260, 40))
    # the script as a background job (spawn_job) next to a queued follower
    for s in ('infinite', 'timed', 'time-of-day'):
        for api in ('bg:stop_job', 'bg:stop_all', 'bgonly:stop_all', 'bgonly:stop_job'):
            deep = tier != 'quick' or (s, api) == ('infinite', 'bg:stop_all')     # stop-all racing the end of the queued job
            out.append((s, api, 1 if deep else 0, 16 if deep else 1, False, GATE_POINTS, WINDOW_AFTER_STOP))
    return out


def run(tier, seed):
    rep = Report()
    tasks = [(s, api, b, (r, n), rr, gp, wn, False) for s, api, b, n, rr, gp, wn in plan(tier) for r in range(n)]
    # visible-bytecode granularity (preemption between two attribute reads of one line)
    opc_pairs = [('timed', 'stop_job')] if tier == 'quick' else [('timed', 'stop_job'), ('straight', 'stop_all'), ('infinite', 'stop_current'), ('time-of-day', 'agent')]
    tasks += [(s, api, 0 if tier == 'quick' else 1, (r, 16), False, 120, 60, True) for s, api in opc_pairs for r in range(16)]
    # two deviations in the window around the clock's first tick while the script sits in its wait (no deviations
    # before the tick): the stop racing fire()'s set/clear and wait()'s test-then-wait
    tick_pairs = [('timed', 'stop_job')] if tier == 'quick' else \
        [('timed', 'stop_job'), ('timed', 'agent'), ('timed', 'stop_all'), ('time-of-day', 'stop_current'),
         ('time-of-day', 'bgonly:stop_all'), ('timed', 'bg:stop_job')]
    for s, api in tick_pairs:
        tasks += [(s, api, 2, (r, 16), False, 14, 16, False, 'first-tick') for r in range(16)]
    if tier == 'thorough':
        # two further deviations on a narrow window that starts at the script's first instruction
        for s, api in (('timed', 'stop_job'), ('time-of-day', 'stop_all'), ('timed', 'bgonly:stop_all')):
            tasks += [(s, api, 2, (r, 16), False, 40, 25, False, 'first-inst') for r in range(16)]
    results = par.run_tasks(_explore, tasks)
    per = {}
    viol = {}
    tot_exec = tot_pts = 0
    for task, st in zip(tasks, results):
        s, api, b, shard, rr, gp, wn, opc = task[:8]
        arm = task[8] if len(task) > 8 else 'start'
        key = '%s/%s/bound%d/gate%d%s%s' % (s, api, b, gp, '/bytecode-points' if opc else '', '' if arm == 'start' else '/armed-at-' + arm)
        cur = per.setdefault(key, dict(schedules=0, stop_positions=0, outcomes=0))
        cur['schedules'] += st['execs']
        cur['stop_positions'] = max(cur['stop_positions'], st['gate_positions'])
        cur['outcomes'] = max(cur['outcomes'], st['outcomes'])
        tot_exec += st['execs']
        tot_pts += st['points']
        for kind, (cnt, choices, detail) in st['viol'].items():
            k2 = (kind, s)
            c2 = viol.get(k2)
            if c2 is None or len(choices) < len(c2[1]):
                viol[k2] = [(c2[0] if c2 else 0) + cnt, choices, detail, api, rr, gp, wn, opc, arm]
            else:
                c2[0] += cnt
    for (kind, s), (cnt, choices, detail, api, rr, gp, wn, opc, arm) in sorted(viol.items()):
        sig = '%s:%s' % (kind, s)
        rep.violation(sig, '%s: script `%s`, stop via %s (%d schedules): %s' % (kind, SCRIPTS[s], api, cnt, detail),
                      {'script': s, 'api': api, 'choices': choices, 'rerun': rr, 'gate_points': gp, 'window': wn, 'opcode_points': bool(opc), 'arm': arm, 'detail': detail, 'schedules': cnt})
    rep.coverage = {
        'states': tot_pts, 'transitions': tot_pts,
        'traces_validated_against_impl': tot_exec, 'evaluations': tot_exec,
        'distinct_nontrivial': sum(v['stop_positions'] for v in per.values()),
        'rule': 'per (script, stop API): the stop gate opened at every scheduling point after the job thread was started '
                '(first %d points; free choice) x every schedule with <= bound further deviations (preemption, non-default '
                'successor, stall = time jumps to the next timer). distinct_nontrivial = distinct stop positions explored, '
                'summed over pairs. Tasks marked armed-at-first-tick offer deviations only from the clock\'s first tick on (stop gate at '
                'the next 14 points, deviations up to 16 points after the stop) with bound 2.' % GATE_POINTS,
        'exhaustive': True,
        'pairs': per,
        'virtual_horizon_s': HORIZON,
        'samples': [{'script': SCRIPTS['timed'], 'api': 'stop_job', 'choices': [0, 0, 0, 3]},
                    {'script': SCRIPTS['time-of-day'], 'api': 'stop_all'}],
    }
    rep.assumptions = ['real Clock thread over virtual time (tick 1 s); line-level switch points in lib/clock.py, Machine.run/stop/reset, '
                       'ScriptJob.execute/request_stop, JobControl.stop_*/clear_queue, Agent.execute/_execute_and_call; every VM '
                       'instruction boundary and every simulated device request is a switch point',
                       'prompt = at most one VM instruction begins after the stop call has returned']
    return rep


def replay(path):
    import json
    v = json.load(open(path))
    wit = v['witness']
    obs = execute(wit['script'], wit['api'], choice.Chooser(wit['choices']), rerun=wit.get('rerun', False),
                  gate_points=wit.get('gate_points'), window=wit.get('window'), opcode_points=wit.get('opcode_points', False), arm=wit.get('arm', 'start'))
    for e in obs['events']:
        print('   ', e)
    print('verdict', obs['verdict'], 'errors', obs['errors'], 't=%.1f' % obs['now'])
    bad = judge(wit['script'], wit['api'], obs, wit.get('rerun', False))
    print('judgement:', bad)
    return bad is None
