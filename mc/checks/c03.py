"""C03 — parameters are by-value locals hiding globals; return from any depth.

Shape E: every program of gen_scope (names x, y, z used simultaneously as
globals, parameters and locals; bodies of bounded size with assignments, prints
and returns at every depth of if/repeat; every call-site kind; nested calls as
arguments; recursion to depth 3) against the reference scoping rules."""
from .. import world
from ..cli import Report
from . import progcheck


def classify(o):
    sig = progcheck.default_classify(o)
    return sig


def run(tier, seed):
    rep = Report()
    acc = progcheck.Accum()
    cost = 2 if tier == 'quick' else 3
    acc.run('scope<=%d' % cost, 'mc.lang.gen_scope', 'programs', (cost,), world.POP_THREE, cap=8000)
    # `return` from the inner of two nested loops (counted and light loops) with the caller's operands, loops and
    # light iteration pending: the caller continues unaffected
    acc.run('returns-from-nested-loops', 'mc.lang.gen_loops', 'returns_from_nested_programs', (world.POP_THREE,),
            world.POP_THREE, cap=8000)
    acc.report(rep, 'recursion templates, two-routine programs (every call form x argument naming x context) and every '
                    'single-routine program with body cost <=%d x 6 parameter lists x every argument tuple x 4 call-site kinds; '
                    'printed values before/inside/after each call compared with the reference scoping rules; routines that return out '
                    'of two nested loops of every kind, called from light/group/counted loops and inside expressions' % cost)
    return rep


replay = progcheck.replay
