"""C03 — parameters are by-value locals hiding globals; return from any depth.

Shape E: every program of gen_scope (names x, y, z used simultaneously as
globals, parameters and locals; bodies of bounded size with assignments, prints
and returns at every depth of if/repeat; every call-site kind; nested calls as
arguments; recursion to depth 3) against the reference scoping rules."""
from .. import world
from ..cli import Report
from . import progcheck


def classify(o):
    sig = progcheck.default_classify(o)
    return sig


LONG_RUNS = [
    # (script, expected last printed value): one run makes many thousands of calls / returns / breaks, so that
    # anything a call, a return out of loops or a break leaves behind adds up to something visible
    ('define f begin repeat 3 begin repeat 2 begin repeat 2 begin return 1 end end end end '
     'assign t 0 repeat %(n)d begin assign t {t + [f]} end print t', lambda n: n),
    ('define f with a begin repeat all as l begin repeat 2 begin if {a > 0} return a end end return 0 end '
     'assign t 0 repeat %(n)d begin assign t {t + [f 2]} end print t', lambda n: 2 * n),
    ('assign t 0 repeat %(n)d begin repeat 3 begin repeat 2 begin break end assign t {t + 1} break end end print t', lambda n: n),
    ('define g with a b begin assign c {a + b} return c end assign t 0 repeat %(n)d begin assign t [g t 1] end print t', lambda n: n),
    ('define h with k begin if {k <= 0} return 0 return {1 + [h {k - 1}]} end assign t 0 repeat %(m)d begin assign t {t + [h 20]} end print t',
     lambda n: 20 * (n // 20)),
]


def _long_run(args):
    text, want = args
    w = world.World(world.POP_THREE)
    res = w.run_script(text, cap=200000000)      # the harness cap must never be what ends these runs
    outs = [e[1] for e in res.trace if e[0] == 'out']
    if not res.accepted or res.abort or res.raised or res.capped or outs != [want]:
        return ('long-run-goes-wrong', text, 'accepted=%r abort=%r raised=%r capped=%r printed %r, expected %r' % (
            res.accepted, res.abort, res.raised, res.capped, outs[-3:], want))
    return None


def run(tier, seed):
    rep = Report()
    acc = progcheck.Accum()
    cost = 2 if tier == 'quick' else 3
    acc.run('scope<=%d' % cost, 'mc.lang.gen_scope', 'programs', (cost,), world.POP_THREE, cap=8000)
    # `return` from the inner of two nested loops (counted and light loops) with the caller's operands, loops and
    # light iteration pending: the caller continues unaffected
    acc.run('returns-from-nested-loops', 'mc.lang.gen_loops', 'returns_from_nested_programs', (world.POP_THREE,),
            world.POP_THREE, cap=8000)
    from .. import par
    n = 12000 if tier == 'quick' else 60000
    tasks = [(t % dict(n=n, m=n // 20), f(n)) for t, f in LONG_RUNS]
    for bad in par.run_tasks(_long_run, tasks):
        if bad is not None:
            rep.violation(bad[0], '%s: `%s`: %s' % (bad[0], bad[1][:200], bad[2]), {'script': bad[1], 'detail': bad[2]})
    acc.report(rep, 'recursion templates, two-routine programs (every call form x argument naming x context) and every '
                    'single-routine program with body cost <=%d x 6 parameter lists x every argument tuple x 4 call-site kinds; '
                    'printed values before/inside/after each call compared with the reference scoping rules; routines that return out '
                    'of two nested loops of every kind, called from light/group/counted loops and inside expressions; five scripts that '
                    'make 12 000 (thorough 60 000) calls, returns out of nested loops, breaks or recursions in one run' % cost)
    return rep


replay = progcheck.replay
