"""Two scripts at once: each job's commands, waits and output are those of the script run alone.

Shape S.  Two ScriptJobs (compiled beforehand) execute on two controlled
threads over one simulated LAN, as a queued job and a background job do in the
web server.  Every line of bardolph's VM, runtime, controller and library
modules is a scheduling point; all schedules with at most `bound` preemptions
are explored.  Oracle: the projection of the ordered request/wait/output log
onto each thread equals the log of the same script run alone (scripts here only
write to devices, so the other job cannot legitimately influence them).
"""
from .. import world
from ..explore import choice, vthreads

from bardolph.controller.script_job import ScriptJob

_PARTS = ('/bardolph/vm/', '/bardolph/runtime/', '/bardolph/controller/', '/bardolph/lib/')
_SKIP = ('injection.py', 'i_lib.py', 'i_controller.py', 'settings.py', 'log_config.py',
         'time_pattern.py')     # the recording clock evaluates a pattern over all 1440 minutes: harness work, not a schedule


def trace_filter(code):
    f = code.co_filename
    return any(p in f for p in _PARTS) and not f.endswith(_SKIP)


def trace_filter_vm(code):
    """scripts that never address a device: the VM and the runtime functions only"""
    f = code.co_filename
    return '/bardolph/vm/' in f or '/bardolph/runtime/' in f


def solo(w, text):
    w.reset()
    if text in EXTRAS:
        EXTRAS[text](w)
        return [e for e in w.net.log if e[0] != 'flush'], None
    res = w.run_script(text)
    assert res.accepted, (text, res.errors)
    return [e for e in res.trace if e[0] != 'flush'], (res.abort or res.raised)


# activities that are not scripts: the discovery thread of the real program (tag -> callable(world))
EXTRAS = {
    '<discover>': lambda w: w.light_set.discover(),
    '<refresh>': lambda w: w.light_set.refresh(),
}


def execute(w, texts, chooser, vm_only=False):
    """texts: ((tag, script), ...) -> dict(per-tag projections, verdict, errors); a script spelled like a key
    of EXTRAS stands for that activity"""
    sched = vthreads.Scheduler(chooser, horizon=1e7, max_steps=400000,
                               trace_filter=trace_filter_vm if vm_only else trace_filter, stall=False)
    shim = vthreads.ShimThreadingModule(sched, [t for t, _ in texts])
    w.reset()
    w.net.log.tagger = lambda: sched.current.name if sched.current is not None else 'main'
    nerr = len(w.log_rec.errors)
    jobs = [(tag, ScriptJob.from_string(text) if text not in EXTRAS else None, text) for tag, text in texts]

    def main():
        ths = [shim.Thread(target=(job.execute if job is not None else (lambda f=EXTRAS[text]: f(w))))
               for tag, job, text in jobs]
        for t in ths:
            t.start()
        for t in ths:
            t.join()
    try:
        verdict = sched.run(main)
    finally:
        w.net.log.tagger = None
    per = {tag: [] for tag, _ in texts}
    for e in w.net.log:
        if e[0] in per and e[1] != 'flush':
            per[e[0]].append(tuple(e[1:]))
    aborts = [e for e in w.log_rec.errors[nerr:] if e[0].startswith('Machine stopped due to')]
    return dict(per=per, verdict=verdict, errors=list(sched.errors), aborts=aborts, points=sched.points)


def explore_pair(w, texts, bound, solo_traces, shard=None, vm_only=False):
    """-> dict(execs, points, outcomes, viol{kind: [count, choices, detail]})"""
    st = dict(execs=0, points=0, outcomes=set(), viol={})

    def run(ch):
        return execute(w, texts, ch, vm_only)

    def judge(obs):
        if obs['verdict'] is not None:
            return ('concurrent-jobs-' + str(obs['verdict']).lower(), '')
        if obs['errors']:
            return ('exception-escapes-job-thread', repr(obs['errors'][0]))
        if obs['aborts']:
            return ('job-aborts-next-to-another-job', repr(obs['aborts'][0]))
        for tag, _ in texts:
            if obs['per'][tag] != solo_traces[tag]:
                got, want = obs['per'][tag], solo_traces[tag]
                i = next((k for k in range(min(len(got), len(want))) if got[k] != want[k]), min(len(got), len(want)))
                return ('job-differs-from-its-solo-run',
                        'job %s event %d: alone %r, next to the other job %r' % (
                            tag, i, want[i] if i < len(want) else None, got[i] if i < len(got) else None))
        return None
    verdicts = {}

    def expand(ch, obs):
        bad = judge(obs)
        verdicts[tuple(ch.choices)] = bad
        return bad is None
    for ch, obs in choice.explore(run, bound=bound, expand=expand, shard=shard):
        st['execs'] += 1
        st['points'] += obs['points']
        st['outcomes'].add(repr(sorted(obs['per'].items())))
        bad = verdicts.pop(tuple(ch.choices))
        if bad is not None:
            kind, detail = bad
            cur = st['viol'].get(kind)
            if cur is None or len(ch.choices) < len(cur[1]):
                st['viol'][kind] = [(cur[0] if cur else 0), list(ch.choices), detail]
            st['viol'][kind][0] += 1
    st['outcomes'] = len(st['outcomes'])
    return st


def split(tasks, shards=2):
    """(pop, a, b, bound[, vm_only]) -> one task per start order and shard of the search"""
    return [tuple(t[:4]) + (bool(t[4]) if len(t) > 4 else False, order, (r, shards))
            for t in tasks for order in (0, 1) for r in range(shards)]


def pair_task(args):
    """(pop, textA, textB, bound, vm_only, order, shard) -> stats"""
    pop, a, b, bound = args[:4]
    vm_only = args[4] if len(args) > 4 else False
    orders = (0, 1) if len(args) <= 5 else (args[5],)
    shard = args[6] if len(args) > 6 else None
    w = world.World(pop)
    tot = dict(execs=0, points=0, outcomes=0, viol={})
    solos = {}
    for tag, text in (('A', a), ('B', b)):
        tr, ab = solo(w, text)
        assert ab is None, (text, ab)
        solos[tag] = [tuple(e) for e in tr]
    for texts in [((('A', a), ('B', b)), (('B', b), ('A', a)))[o] for o in orders]:
        st = explore_pair(w, texts, bound, solos, shard, vm_only)
        tot['execs'] += st['execs']
        tot['points'] += st['points']
        tot['outcomes'] = max(tot['outcomes'], st['outcomes'])
        for k, v in st['viol'].items():
            cur = tot['viol'].get(k)
            if cur is None:
                tot['viol'][k] = v + [texts]
            else:
                cur[0] += v[0]
    return tot


def replay(pop, texts, choices, vm_only=False):
    w = world.World(pop)
    solos = {}
    for tag, text in texts:
        tr, ab = solo(w, text)
        solos[tag] = [tuple(e) for e in tr]
    obs = execute(w, tuple(tuple(t) for t in texts), choice.Chooser(choices), vm_only)
    for tag, text in texts:
        print('job', tag, ':', text)
        print('   alone      :', solos[tag])
        print('   concurrent :', obs['per'][tag])
    print('verdict', obs['verdict'], 'aborts', obs['aborts'], 'errors', obs['errors'])
    return all(obs['per'][t] == solos[t] for t, _ in texts) and not obs['aborts']
