"""C08 — queued jobs: one at a time, in order, exactly once, queue drains.

Shape S on the real JobControl/Agent: `job_control.threading` is replaced by
the controlled-thread shims; every line of lib/job_control.py and every shim
operation is a scheduling point; all schedules with at most `bound`
preemptions are explored for each harness (1-3 client threads, 1-4 jobs that
finish, raise, or wait for a stop request).
"""
import itertools

from .. import par, world
from ..cli import Report
from ..explore import choice, vthreads

from bardolph.lib import job_control


class JobError(Exception):
    pass


class RecJob(job_control.Job):
    def __init__(self, sched, name, kind='finish', jc=None, background=False):
        self.s = sched
        self.name = name
        self.kind = kind
        self.jc = jc
        self.background = background
        self.stop_event = vthreads.ShimEvent.__new__(type('E', (vthreads.ShimEvent,), {'_sched': sched}))
        self.stop_event._flag = False
        self.running_reports = []

    def execute(self):
        s = self.s
        s.log('start', self.name)
        try:
            s.point('job-body')
            if self.background and self.jc is not None:
                self.running_reports.append(self.jc.is_running(self.name))
            if self.kind == 'raise':
                raise JobError(self.name)
            if self.kind == 'wait-stop':
                self.stop_event.wait()
            s.point('job-body')
            if self.background and self.jc is not None:
                self.running_reports.append(self.jc.is_running(self.name))
        finally:
            s.log('end', self.name)

    def request_stop(self):
        self.s.log('stop-requested', self.name)
        self.stop_event.set()


# harness = list of client scripts; op = (verb, job name[, kind])
HARNESSES = {
    'add3': [[('add', 'a'), ('add', 'b'), ('add', 'c')]],
    'add2|insert': [[('add', 'a'), ('add', 'b')], [('insert', 'c')]],
    'add|add,insert': [[('add', 'a')], [('add', 'b'), ('insert', 'c')]],
    'add|insert|spawn2': [[('add', 'a')], [('insert', 'b')], [('spawn', 's1'), ('spawn', 's2')]],
    'add,clear,add': [[('add', 'a'), ('clear',), ('add', 'b')], [('add', 'c')]],
    'raise,add|add': [[('add', 'r', 'raise'), ('add', 'b')], [('add', 'c')]],
    'wait-stop|add|stop': [[('add', 'a', 'wait-stop')], [('add', 'b')], [('stop', 'a')]],
    'insert|insert|add': [[('insert', 'a')], [('insert', 'b')], [('add', 'c')]],
    'add4': [[('add', 'a'), ('add', 'b')], [('add', 'c'), ('add', 'd')]],
    'add|insert': [[('add', 'a')], [('insert', 'b')]],
    'add|add': [[('add', 'a')], [('add', 'b')]],
    'raise|add': [[('add', 'r', 'raise')], [('add', 'b')]],
    # a client that only clears the queue (the web Stop button) next to clients that queue
    'add|add|clear': [[('add', 'a')], [('add', 'b')], [('clear',)]],
    'add2|clear,add': [[('add', 'a'), ('add', 'b')], [('clear',), ('add', 'c')]],
}
QUICK = ['add3', 'add2|insert', 'add|add,insert', 'add|insert|spawn2', 'add,clear,add', 'raise,add|add',
         'wait-stop|add|stop', 'add|add|clear', 'add2|clear,add']


def trace_filter(code):
    return code.co_filename.endswith('lib/job_control.py')



def _log_spawns(sched, shim, name_of):
    """the instant the controller starts a job's thread is the beginning of its execution: from then on the
    operating system may run it"""
    orig = shim.Thread.start

    def start(self):
        owner = getattr(self._target, '__self__', None)
        if isinstance(owner, job_control.Agent):
            sched.log('spawn', name_of(owner))
        return orig(self)
    shim.Thread.start = start


LS_HARNESSES = {
    # client threads entering through the embedding API, bardolph.controller.ls_module.queue_script(text)
    'ls:queue|queue': [['on "a"'], ['on "b"']],
    'ls:queue2|queue': [['on "a"', 'off "a"'], ['on "b"']],
}


def _ls_trace_filter(code):
    return code.co_filename.endswith(('lib/job_control.py', 'controller/ls_module.py'))


def execute_ls(hname, chooser, opcode_points=False):
    """Real scripts queued through ls_module from several client threads: the module is re-imported under the
    shims for every execution, as a fresh process would import it."""
    import importlib
    from bardolph.controller import ls_module, script_job
    from bardolph.lib import clock as clock_mod
    scripts = LS_HARNESSES[hname]
    sched = vthreads.Scheduler(chooser, horizon=200.0, max_steps=30000, trace_filter=_ls_trace_filter,
                               opcode_points=opcode_points, trace_modules=(job_control, ls_module))
    w = world.World((world.Dev('a', 'g', 'p'), world.Dev('b', 'g', 'p')), clock='real',
                    overrides={'sleep_time': 1.0})
    names = ['client%d' % i for i in range(len(scripts))] + ['t%d' % i for i in range(12)]
    shim = vthreads.ShimThreadingModule(sched, names)
    shimtime = vthreads.ShimTime(sched)
    job_control.threading = shim
    clock_mod.threading = shim
    clock_mod.time = shimtime
    importlib.reload(ls_module)
    _log_spawns(sched, shim, lambda agent: getattr(agent.job, '_mc_text', '?'))
    obs = dict(final=None, client_errors=[])
    real_execute = script_job.ScriptJob.execute
    counter = [0]

    def execute_logged(self):
        if not hasattr(self, '_mc_id'):
            counter[0] += 1
            self._mc_id = getattr(self, '_mc_text', 'job%d' % counter[0])
        sched.log('start', self._mc_id)
        try:
            return real_execute(self)
        finally:
            if not sched.aborting:
                sched.log('end', self._mc_id)
    real_from_string = script_job.ScriptJob.from_string

    def from_string_tagged(text):
        job = real_from_string(text)
        job._mc_text = text
        return job
    w.net.on_request = lambda label, op: sched.log('dev-req', label, op)

    def client(idx, texts):
        for k, text in enumerate(texts):
            opid = 'c%d.%d' % (idx, k)
            sched.log('call', opid, text)
            try:
                agent = ls_module.queue_script(text)
                sched.log('ret', opid, agent is not None)
            except vthreads._Unwind:
                raise
            except BaseException as ex:
                obs['client_errors'].append((opid, repr(ex)))
                sched.log('ret', opid, 'raised')

    def main():
        ths = [shim.Thread(target=client, args=(i, sc)) for i, sc in enumerate(scripts)]
        for t in ths:
            t.start()
        for t in ths:
            t.join()
        jobs = lambda: [v for v in vars(ls_module.LsModule).values() if isinstance(v, job_control.JobControl)]
        for _ in range(60):
            if not any(jc.has_jobs() for jc in jobs()):
                break
            shimtime.sleep(1.0)
        obs['final'] = dict(has_jobs=any(jc.has_jobs() for jc in jobs()), controllers=len(jobs()))
    script_job.ScriptJob.execute = execute_logged
    script_job.ScriptJob.from_string = staticmethod(from_string_tagged)
    try:
        verdict = sched.run(main)
    finally:
        script_job.ScriptJob.execute = real_execute
        script_job.ScriptJob.from_string = staticmethod(real_from_string)
    obs.update(verdict=verdict, events=sched.events, errors=sched.errors, points=sched.points, now=sched.now,
               jobs={t: None for sc in scripts for t in sc})
    return obs


def judge_ls(hname, obs):
    scripts = LS_HARNESSES[hname]
    ev = obs['events']
    if obs['verdict'] in ('DEADLOCK', 'SPIN', 'OVERRUN', 'HANG'):
        return (obs['verdict'].lower(), 'verdict %s at virtual time %.1f' % (obs['verdict'], obs['now']))
    for name, err in obs['errors']:
        return ('exception-escapes-controller-thread', '%s: %s' % (name, err))
    if obs['client_errors']:
        return ('queue-call-raises', repr(obs['client_errors'][0]))
    running = set()
    counts = {}
    for e in ev:
        if e[2] == 'spawn':
            if running:
                return ('two-queued-jobs-at-once', 'the thread of %s was started while %s runs' % (e[3], sorted(running)))
            running.add(e[3])
        elif e[2] == 'start':
            counts.setdefault(e[3], [0, 0])[0] += 1
        elif e[2] == 'end':
            counts.setdefault(e[3], [0, 0])[1] += 1
            running.discard(e[3])
    for sc in scripts:
        for text in sc:
            c = counts.get(text, [0, 0])
            if c != [1, 1]:
                return ('queued-job-not-executed-exactly-once', '%r started %d times, ended %d times' % (text, c[0], c[1]))
    # order: a call that returned before another began starts first; one client's own calls in order
    call = {e[3]: i for i, e in enumerate(ev) if e[2] == 'call'}
    ret = {e[3]: i for i, e in enumerate(ev) if e[2] == 'ret'}
    text_of = {e[3]: e[4] for e in ev if e[2] == 'call'}
    start = {e[3]: i for i, e in enumerate(ev) if e[2] == 'start'}
    for x in call:
        for y in call:
            if x != y and ret.get(x, 1 << 30) < call[y] and start[text_of[x]] > start[text_of[y]]:
                return ('jobs-start-out-of-queue-order', '%r was queued before %r but started after it' % (text_of[x], text_of[y]))
    n_dev = len([e for e in ev if e[2] == 'dev-req'])
    if n_dev != sum(len(sc) for sc in scripts):
        return ('queued-job-commands-missing-or-repeated', '%d device requests' % n_dev)
    if obs['final'] is None or obs['final']['has_jobs']:
        return ('controller-reports-jobs-after-everything-finished', repr(obs['final']))
    return None


def execute(hname, chooser, line_points=True, opcode_points=False):
    """One execution of a harness under the chooser; returns observation dict."""
    if hname in LS_HARNESSES:
        return execute_ls(hname, chooser, opcode_points)
    scripts = HARNESSES[hname]
    sched = vthreads.Scheduler(chooser, horizon=500.0, max_steps=20000, trace_filter=trace_filter,
                               line_points=line_points, opcode_points=opcode_points, trace_modules=(job_control,))
    names = ['client%d' % i for i in range(len(scripts))] + ['jobthread%d' % i for i in range(8)]
    # job threads are created in start order; client threads first
    shim = vthreads.ShimThreadingModule(sched, names)
    job_control.threading = shim
    _log_spawns(sched, shim, lambda agent: agent.name)
    obs = dict(ops=[], final=None, jobs={}, client_errors=[])
    jc_box = {}

    def client(idx, script):
        jc = jc_box['jc']
        for k, op in enumerate(script):
            opid = 'c%d.%d' % (idx, k)
            sched.log('call', opid, op)
            try:
                if op[0] in ('add', 'insert', 'spawn'):
                    kind = op[2] if len(op) > 2 else 'finish'
                    job = RecJob(sched, op[1], kind, jc, background=(op[0] == 'spawn'))
                    obs['jobs'][op[1]] = job
                    if op[0] == 'add':
                        res = jc.add_job(job, op[1])
                    elif op[0] == 'insert':
                        res = jc.insert_job(job, op[1])
                    else:
                        res = jc.spawn_job(job, op[1])
                    res = res is not None
                elif op[0] == 'clear':
                    res = jc.clear_queue()
                elif op[0] == 'stop':
                    # the job may not have started yet: retry until delivered (visible waiting)
                    res = False
                    for _ in range(50):
                        if jc.stop_job(op[1]):
                            res = True
                            break
                        if op[1] in obs['jobs'] and any(e[2:4] == ('end', op[1]) for e in sched.events):
                            break
                        shimtime.sleep(1.0)
                sched.log('ret', opid, res)
            except vthreads._Unwind:
                raise
            except BaseException as ex:
                obs['client_errors'].append((opid, repr(ex)))
                sched.log('ret', opid, 'raised')

    shimtime = vthreads.ShimTime(sched)

    def main():
        jc = job_control.JobControl()
        jc_box['jc'] = jc
        ths = [shim.Thread(target=client, args=(i, sc)) for i, sc in enumerate(scripts)]
        for t in ths:
            t.start()
        for t in ths:
            t.join()
        for _ in range(60):
            if not jc.has_jobs():
                break
            shimtime.sleep(1.0)
        obs['final'] = dict(has_jobs=jc.has_jobs(), current=jc.get_current(),
                            queued=[a.name for a in jc.get_queued()],
                            background=[a.name for a in list(jc.get_background())],
                            running_after={n: jc.is_running(n) for n in obs['jobs']})
        obs['lock_timeouts'] = jc._lock.timed_out if hasattr(jc._lock, 'timed_out') else 0

    verdict = sched.run(main)
    obs['verdict'] = verdict
    obs['events'] = sched.events
    obs['errors'] = sched.errors
    obs['points'] = sched.points
    obs['now'] = sched.now
    return obs


# ------------------------------------------------------------------ oracle
def linearizable(events, scripts):
    """Is the observed start order of queued jobs producible by the sequential
    specification under some order of operations/completions respecting the
    recorded intervals?"""
    idx = {}
    ops = []
    for i, e in enumerate(events):
        if e[2] == 'call':
            idx[e[3]] = [i, None, e[4]]
        elif e[2] == 'ret':
            idx[e[3]][1] = i
    big = len(events) + 5
    items = []
    background = set()
    for opid, (lo, hi, op) in idx.items():
        if op[0] == 'spawn':
            background.add(op[1])
            continue
        if op[0] == 'stop':
            continue
        items.append((op[0], op[1] if len(op) > 1 else None, lo, hi if hi is not None else big))
    starts = [e[3] for e in events if e[2] == 'start' and e[3] not in background]
    for i, e in enumerate(events):
        if e[2] == 'end' and e[3] not in background:
            items.append(('done', e[3], i, big))
    n = len(items)
    target = tuple(starts)
    seen = set()

    def step(active, queue, emitted):
        while active is None and queue:
            active = queue[0]
            queue = queue[1:]
            emitted = emitted + (active,)
        return active, queue, emitted

    def dfs(mask, point, active, queue, emitted):
        if emitted != target[:len(emitted)]:
            return False
        if mask == (1 << n) - 1:
            return emitted == target
        key = (mask, active, queue, emitted)
        if key in seen:
            return False
        seen.add(key)
        for k in range(n):
            if mask >> k & 1:
                continue
            verb, name, lo, hi = items[k]
            p = max(point, lo)
            if p > hi:
                continue
            # real-time order: an unplaced item that must precede this one?
            if any(not (mask >> j & 1) and j != k and items[j][3] < lo for j in range(n)):
                continue
            a, q, em = active, queue, emitted
            if verb == 'add':
                q = q + (name,)
            elif verb == 'insert':
                q = (name,) + q
            elif verb == 'clear':
                q = ()
            elif verb == 'done':
                if a != name:
                    continue
                a = None
            a, q, em = step(a, q, em)
            if dfs(mask | 1 << k, p, a, q, em):
                return True
        return False
    return dfs(0, 0, None, (), ())


def judge(hname, obs):
    """-> None | (kind, detail)"""
    if hname in LS_HARNESSES:
        return judge_ls(hname, obs)
    scripts = HARNESSES[hname]
    ev = obs['events']
    if obs['verdict'] in ('DEADLOCK', 'SPIN', 'OVERRUN', 'HANG'):
        return (obs['verdict'].lower(), 'verdict %s at virtual time %.1f' % (obs['verdict'], obs['now']))
    for name, err in obs['errors']:
        if not err.startswith('JobError'):
            return ('exception-escapes-controller-thread', '%s: %s' % (name, err))
    if obs.get('lock_timeouts'):
        return ('lock-acquire-timed-out', '%d timed-out acquisitions' % obs['lock_timeouts'])
    if obs['client_errors']:
        return ('queue-call-raises', repr(obs['client_errors'][0]))
    background = {op[1] for sc in scripts for op in sc if op[0] == 'spawn'}
    cleared_possible = any(op[0] == 'clear' for sc in scripts for op in sc)
    running = set()
    counts = {}
    for e in ev:
        if e[2] == 'spawn' and e[3] not in background:
            if running:
                return ('two-queued-jobs-at-once', 'the thread of %s was started while %s runs' % (e[3], sorted(running)))
            running.add(e[3])
        elif e[2] == 'start':
            counts.setdefault(e[3], [0, 0])[0] += 1
            if e[3] not in background:
                if running - {e[3]}:
                    return ('two-queued-jobs-at-once', '%s started while %s runs' % (e[3], sorted(running)))
                running.add(e[3])
        elif e[2] == 'end':
            counts.setdefault(e[3], [0, 0])[1] += 1
            running.discard(e[3])
    for name in obs['jobs']:
        c = counts.get(name, [0, 0])
        if c[0] > 1:
            return ('job-executed-twice', '%s started %d times' % (name, c[0]))
        if c[0] == 0 and not (cleared_possible and name not in background):
            return ('job-never-executed', name)
        if c[0] != c[1]:
            return ('job-did-not-finish', name)
    f = obs['final']
    if f is None:
        return ('harness-main-did-not-finish', repr(obs['verdict']))
    if f['has_jobs'] or f['current'] is not None or f['queued'] or f['background']:
        return ('controller-not-drained', repr({k: (v if k != 'current' else (v.name if v else None)) for k, v in f.items()}))
    if any(f['running_after'].values()):
        return ('job-reported-running-after-quiescence', repr(f['running_after']))
    for name in background:
        job = obs['jobs'].get(name)
        if job is not None and not all(job.running_reports):
            return ('background-job-not-reported-running', '%s: %r' % (name, job.running_reports))
    if not linearizable(ev, scripts):
        starts = [e[3] for e in ev if e[2] == 'start' and e[3] not in background]
        return ('start-order-not-linearizable', 'starts %r' % (starts,))
    return None


def _explore_harness(args):
    hname, bound, line_points, shard = args[:4]
    opcode_points = len(args) > 4 and args[4]
    world.World(world.POP_EMPTY)
    st = dict(execs=0, points=0, outcomes=set(), viol={}, maxpoints=0)

    def run(ch):
        return execute(hname, ch, line_points, opcode_points)
    determinism_every = 97
    for ch, obs in choice.explore(run, bound=bound, shard=shard):
        st['execs'] += 1
        st['points'] += obs['points']
        st['maxpoints'] = max(st['maxpoints'], len(ch.points))
        order = tuple(e[2:4] for e in obs['events'] if e[2] in ('start', 'end'))
        st['outcomes'].add(order)
        bad = judge(hname, obs)
        if bad is None and st['execs'] % determinism_every == 0:
            obs2 = execute(hname, choice.Chooser(ch.choices), line_points, opcode_points)
            if obs2['events'] != obs['events']:
                bad = ('harness-nondeterministic-replay', 'same choices, different events')
        if bad is not None:
            kind, detail = bad
            cur = st['viol'].get(kind)
            if cur is None or len(ch.choices) < len(cur[1]):
                st['viol'][kind] = [(cur[0] if cur else 0), ch.choices, detail]
            st['viol'][kind][0] += 1
    st['outcomes'] = len(st['outcomes'])
    return hname, st


def run(tier, seed):
    rep = Report()
    big = ('add|insert|spawn2', 'wait-stop|add|stop', 'add4')
    if tier == 'quick':
        plan = [(h, 2, 6 if h in big else 2) for h in QUICK] + [(h, 2, 1) for h in ('add|insert', 'add|add', 'raise|add')]
    else:
        plan = [(h, 2, 6 if h in big else 2) for h in HARNESSES] + \
               [(h, 3, 16) for h in ('add|insert', 'add|add', 'raise|add', 'add3')]
    plan += [('ls:queue|queue', 2, 8)] if tier == 'quick' else [('ls:queue|queue', 3, 16), ('ls:queue2|queue', 2, 16)]
    tasks = [(h, b, True, (r, n), False) for h, b, n in plan for r in range(n)]
    # visible-bytecode granularity (switches between the attribute reads of one line)
    if tier == 'quick':
        tasks += [(h, 1, True, (0, 1), True) for h in QUICK]
    else:
        tasks += [(h, 2, True, (r, 8), True) for h in HARNESSES for r in range(8)]
    results = par.run_tasks(_explore_harness, tasks)
    tot_exec = tot_pts = 0
    outcomes = 0
    per = {}
    viol = {}
    for (hname, bound, lp, shard, opc), (_, st) in zip(tasks, results):
        tot_exec += st['execs']
        tot_pts += st['points']
        key = '%s/bound%d%s' % (hname, bound, '/bytecode-points' if opc else '')
        cur = per.setdefault(key, dict(schedules=0, distinct_start_end_orders_max_per_shard=0,
                                       choice_points_in_longest_schedule=0))
        cur['schedules'] += st['execs']
        cur['distinct_start_end_orders_max_per_shard'] = max(cur['distinct_start_end_orders_max_per_shard'], st['outcomes'])
        cur['choice_points_in_longest_schedule'] = max(cur['choice_points_in_longest_schedule'], st['maxpoints'])
        for kind, (cnt, choices, detail) in st['viol'].items():
            c2 = viol.get((kind, hname))
            if c2 is None or len(choices) < len(c2[1]):
                viol[(kind, hname)] = [(c2[0] if c2 else 0) + cnt, choices, detail, opc]
            else:
                c2[0] += cnt
    outcomes = sum(v['distinct_start_end_orders_max_per_shard'] for v in per.values())
    for (kind, hname), (cnt, choices, detail, opc) in sorted(viol.items()):
        rep.violation(kind, '%s in harness %s (%d schedules%s): %s' % (kind, hname, cnt, ', bytecode granularity' if opc else '', detail),
                      {'harness': hname, 'choices': choices, 'detail': detail, 'schedules': cnt, 'opcode_points': bool(opc)})
    rep.coverage = {
        'states': tot_pts, 'transitions': tot_pts,
        'traces_validated_against_impl': tot_exec, 'evaluations': tot_exec,
        'distinct_nontrivial': outcomes,
        'rule': 'all schedules with at most `bound` deviations (a switch away from a runnable thread, or a non-default choice of successor when the running thread blocks or ends) at line granularity '
                'inside lib/job_control.py plus every shim operation, per harness (ls: harnesses enter through controller/ls_module.queue_script '
                'with real scripts, real Machine and Clock over virtual time; the module is re-imported per execution); states/transitions = scheduling points '
                'executed; distinct_nontrivial = distinct job start/end orders observed (summed over harnesses)',
        'exhaustive': True,
        'preemption_bounds_completed': sorted({k.rsplit('/bound', 1)[1] for k in per}),
        'harnesses': per,
        'samples': [{'harness': 'ls:queue|queue', 'clients': LS_HARNESSES['ls:queue|queue']},
                    {'harness': 'add2|insert', 'clients': HARNESSES['add2|insert']},
                    {'harness': 'wait-stop|add|stop', 'clients': HARNESSES['wait-stop|add|stop']}],
    }
    rep.assumptions = ['one thread runs at a time (baton); switch points: every line of lib/job_control.py and every Thread/RLock/Event/sleep '
                       'operation; CPython executes a single line of these functions without another thread observing a partial effect '
                       'except through the operations that are themselves points',
                       'a completion may take effect any time after its job\'s end event (linearizability oracle)']
    return rep


def replay(path):
    import json
    v = json.load(open(path))
    wit = v['witness']
    world.World(world.POP_EMPTY)
    obs = execute(wit['harness'], choice.Chooser(wit['choices']), opcode_points=wit.get('opcode_points', False))
    obs2 = execute(wit['harness'], choice.Chooser(wit['choices']), opcode_points=wit.get('opcode_points', False))
    print('harness', wit['harness'], 'choices', wit['choices'])
    for e in obs['events']:
        print('   ', e)
    print('verdict', obs['verdict'], 'errors', obs['errors'], 'final', obs['final'])
    print('deterministic replay:', obs['events'] == obs2['events'])
    bad = judge(wit['harness'], obs)
    print('judgement:', bad)
    return bad is None
