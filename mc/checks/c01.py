"""C01 — a script issues exactly the commands, waits and output its source says.

Shape E: every program of three bounded slices (K control skeletons,
V commands and values over four populations, X commands inside control, S loop headers that read their own variable, L light/group/location loops over names that differ in capitalisation, R routines that return out of nested loops, called from light loops and expressions) is
rendered, compiled by the real parser, loaded and run on the real VM over the
simulated LAN with a recording clock, and its event trace is compared with the
reference interpreter's (lang/ref.py).
"""
import hashlib
import itertools

from .. import par, simnet, world
from ..cli import Report
from ..lang import gen_k, gen_loops, gen_v, gen_x, harness, render

POPS = {'empty': world.POP_EMPTY, 'one': world.POP_ONE,
        'three': world.POP_THREE, 'mixed': world.POP_MIXED,
        'case': (world.Dev('Bulb', 'Kitchen', 'Up'), world.Dev('apple', 'hall', 'down'), world.Dev('Cord', 'Lounge', 'down'),
                 world.Dev('desk', 'office', 'Up'), world.Dev('Zed', 'hall', 'Attic'))}


def classify(o):
    """Signature of a failing outcome: status + a narrow description."""
    st = o.status
    if st in ('abort', 'crash'):
        d = o.detail
        if isinstance(d, tuple):
            return '%s:%s@%s' % (st, d[1], d[3])
        return '%s:%s' % (st, str(d).split(':')[0])
    if st == 'mismatch':
        i, want, got = o.detail
        wk = want[:3] if isinstance(want, tuple) and want[0] == 'dev' else (want[:2] if want else None)
        gk = got[:3] if isinstance(got, tuple) and got[0] == 'dev' else (got[:2] if got else None)
        if want and got and want[0] == got[0] == 'dev' and want[2] == got[2] == 'set_power' \
                and want[1] == got[1]:
            return 'mismatch:set_power-arguments'
        if want and got and want[0] == got[0] == 'dev' and want[2] == got[2] and want[1] == got[1]:
            return 'mismatch:%s-arguments' % want[2]
        if want and got and want[0] == got[0] == 'dev' and want[2] == got[2]:
            return 'mismatch:%s-wrong-light' % want[2]
        return 'mismatch:%s-vs-%s' % ((want or ('end',))[0], (got or ('end',))[0])
    return st


def _slice_worker(rank, n, slice_name, size, popname):
    w = world.World(POPS[popname])
    if slice_name == 'K':
        gen = gen_k.programs(size)
    elif slice_name == 'V':
        gen = gen_v.programs(size, POPS[popname])
    elif slice_name == 'R':
        gen = ((0, p) for tag, p in gen_loops.returns_from_nested(POPS[popname]))
    elif slice_name == 'L':
        gen = ((0, p) for tag, p in gen_loops.single(POPS[popname]) if tag.split('/')[0] in
               ('all', 'groups', 'locations') or tag.startswith('in'))
    elif slice_name == 'S':
        gen = ((0, p) for p in gen_loops.self_bound_programs(POPS[popname]))
    else:
        gen = gen_x.programs(size, POPS[popname])
    st = dict(programs=0, ok=0, undefined=0, refcap=0, steps=0, events=0,
              traces=set(), viol={}, sample=None)
    for idx, (sz, prog) in enumerate(gen):
        if idx % n != rank:
            continue
        st['programs'] += 1
        o = harness.run_ast(w, prog)
        if o.status == 'ok':
            st['ok'] += 1
            st['steps'] += o.steps
            st['events'] += len(o.trace)
            st['traces'].add(hashlib.md5(repr(o.trace).encode()).digest()[:8])
            if st['sample'] is None and len(o.trace) > 3:
                st['sample'] = o.text
        elif o.status in ('undefined', 'refcap'):
            st[o.status] += 1
        else:
            sig = classify(o)
            cur = st['viol'].get(sig)
            if cur is None or len(o.text) < len(cur[1]):
                st['viol'][sig] = [(cur[0] if cur else 0), o.text, repr(o.detail), popname]
            st['viol'][sig][0] += 1
    st['traces'] = list(st['traces'])
    return st


def run(tier, seed):
    rep = Report()
    if tier == 'quick':
        plan = [('K', 6, 'one'), ('V', 3, 'three'), ('V', 2, 'empty'), ('V', 2, 'one'),
                ('V', 2, 'mixed'), ('X', 3, 'three'), ('X', 3, 'mixed'), ('R', 0, 'three'), ('S', 0, 'three'), ('L', 0, 'case')]
    else:
        plan = [('K', 7, 'one'), ('V', 3, 'three'), ('V', 3, 'empty'), ('V', 3, 'one'),
                ('V', 3, 'mixed'), ('X', 4, 'three'), ('X', 4, 'mixed'), ('X', 3, 'one'), ('X', 3, 'empty'),
                ('R', 0, 'three'), ('R', 0, 'one'), ('S', 0, 'three'), ('S', 0, 'one'), ('L', 0, 'case')]
    tot = dict(programs=0, ok=0, undefined=0, refcap=0, steps=0, events=0)
    traces = set()
    samples = []
    per_slice = {}
    viol = {}
    for sl, size, pop in plan:
        res = par.run(_slice_worker, (sl, size, pop))
        key = '%s<=%d/%s' % (sl, size, pop)
        per_slice[key] = sum(r['programs'] for r in res)
        for r in res:
            for k in tot:
                tot[k] += r[k]
            traces.update(r['traces'])
            if r['sample'] and len(samples) < 8 and not any(s.startswith(key) for s in samples):
                samples.append('%s: %s' % (key, r['sample']))
            for sig, (cnt, text, detail, popname) in r['viol'].items():
                cur = viol.get(sig)
                if cur is None:
                    viol[sig] = [cnt, text, detail, popname, key]
                else:
                    cur[0] += cnt
                    if len(text) < len(cur[1]):
                        cur[1:] = [text, detail, popname, key]
    for sig, (cnt, text, detail, popname, key) in sorted(viol.items()):
        rep.violation(sig, '%s in slice %s (%d programs), e.g. `%s` -> %s' % (sig, key, cnt, text, detail),
                      {'script': text, 'population': popname, 'detail': detail, 'slice': key,
                       'programs_with_this_signature': cnt})
    rep.coverage = {
        'states': tot['steps'],
        'transitions': tot['events'],
        'traces_validated_against_impl': tot['ok'],
        'evaluations': tot['programs'],
        'distinct_nontrivial': len(traces),
        'rule': 'every program of each slice up to the stated size, simplest first; states = VM instructions '
                'executed (counted at Machine._fn_table), transitions = observable events compared with the '
                'reference trace; distinct_nontrivial = distinct observed event traces',
        'exhaustive': True,
        'programs_per_slice': per_slice,
        'reference_undefined_skipped': tot['undefined'],
        'reference_step_cap_skipped': tot['refcap'],
        'samples': samples or ['(none)'],
    }
    rep.assumptions = list(simnet.ASSUMPTIONS) + [
        'recording clock at i_lib.Clock: pause_for/wait_until requests are observed, nothing sleeps',
        'reference semantics: DESIGN.md Appendix A (mc/lang/ref.py)']
    return rep


def replay(path):
    import json
    v = json.load(open(path))
    wit = v['witness']
    w = world.World(POPS[wit['population']])
    res = w.run_script(wit['script'])
    print('script:', wit['script'])
    print('population:', wit['population'])
    print('recorded detail:', wit['detail'])
    print('observed now: accepted=%r abort=%r raised=%r' % (res.accepted, res.abort, res.raised))
    for e in res.trace:
        print('   ', e)
    print('(expected trace comes from the reference interpreter; rerun ./check C01 quick for the verdict)')
    return False
