"""C19 — print, println, printf write exactly the documented text to stdout.

Run with the PRODUCTION output binding (std_out_output.configure()); sys.stdout
is replaced by a recorder that logs every write into the same ordered log as
the device requests.

 A  every sequence of <= 3 (thorough 4) statements over an alphabet of
    print/println/printf forms with values of every kind, interleaved with a
    device command;
 B  every format string of <= 3 fields over {auto, numbered permutation, named
    register, named variable} x 5 format specs x separators incl. \\n, each
    between two prints.
Oracle: the reference interpreter's output events turned into the documented
text: str() of values, one space between outputs on a line, println ends the
line, printf text = str.format; white space at a printf junction is open.
"""
import itertools
import re
import sys

from .. import par, world
from ..cli import Report
from ..lang import ref as refmod
from ..lang import render

N = lambda v: ('num', v)
S = lambda s: ('str', s)
V = lambda n: ('var', n)

PRELUDE = (('setreg', 'hue', N(120)), ('assign', 'x', N(7)), ('assign', 'nm', S('Lamp')),
           # variables whose names differ from a register's only in case, or equal an internal register's name
           ('assign', 'Hue', N(11)), ('assign', 'name', S('nv')), ('assign', 'result', N(13)), ('assign', 'power', N(17)),
           ('define', 'id', ('p',), (('return', V('p')),)))
VALUES = [N(5), N(2.5), S('a b'), ('bin', '<', N(1), N(2)), ('reg', 'hue'), V('x'),
          ('bin', '*', N(3), N(4)), ('bin', '/', N(7), N(2)), ('call', 'id', (N(9),)), V('nm'),
          S('C:\\new {x}')]          # a value containing backslash-n and braces is text, not markup
DEVICE = ('act', 'on', (('light', S('a')),))


class StdoutRecorder:
    def __init__(self, log):
        self.log = log

    def write(self, s):
        if s:
            self.log.append(('stdout', s))
        return len(s)

    def flush(self):
        pass


def alphabet():
    out = [('print', v) for v in VALUES]
    out += [('println', v) for v in (N(5), S('a b'), ('reg', 'hue'))]
    out.append(('println', None))
    out += [('printf', f, a) for f, a in (
        ('{}', (N(5),)), ('{} {}', (V('x'), S('q'))), ('{hue}', ()), ('{x}:{}', (N(2.5),)),
        ('{1} {0}', (N(1), N(2))), ('a\\nb', ()), ('{:>6}|', (V('x'),)), ('{nm:<6}|{:.2f}', (N(2.5),)),
        ('end\\n', ()), ('{}|{nm}', (S('C:\\new'),)), ('{} {}', (N(1), N(2))),
        ('{Hue} {hue}', ()), ('{name}|{result}', ()), ('{power}:{}', (V('Hue'),)))]
    out.append(DEVICE)
    return out


def formats():
    specs = ['', ':d', ':.2f', ':>6', ':<4s']
    seps = [' ', '-', '\\n']
    argpool = [N(5), N(2.5), S('ab')]

    def fields(k):
        kinds = []
        for combo in itertools.product('AMRV', repeat=k):
            if 'A' in combo and 'M' in combo:
                continue          # str.format rejects mixing automatic and manual numbering
            kinds.append(combo)
        return kinds
    for k in (1, 2, 3):
        for combo in fields(k):
            nm = combo.count('M')
            perms = itertools.permutations(range(nm)) if nm else [()]
            for perm in perms:
                for sp in itertools.product(specs, repeat=k) if k < 3 else [(s,) * k for s in specs] + [('', ':d', ':.2f')]:
                    for sep in seps if k > 1 else [' ']:
                        parts = []
                        mi = 0
                        for kind, spec in zip(combo, sp):
                            if kind == 'A':
                                parts.append('{%s}' % spec)
                            elif kind == 'M':
                                parts.append('{%d%s}' % (perm[mi], spec))
                                mi += 1
                            elif kind == 'R':
                                parts.append('{hue%s}' % spec)
                            else:
                                parts.append('{x%s}' % spec)
                        fmt = 'T:' + sep.join(parts)
                        nargs = combo.count('A') + nm
                        for args in itertools.product(argpool, repeat=nargs) if nargs <= 2 else [tuple(argpool)]:
                            yield ('printf', fmt, tuple(args))


PRELUDE_C = PRELUDE + (
    # returns out of a counted loop
    ('define', 'lp', ('p',), (('repeat', ('range', 'i', N(1), N(3)),
                               (('if', ((('bin', '==', V('i'), N(2)), (('return', ('bin', '+', V('p'), V('i'))),)),), None),)),)),
    # returns out of a light loop nested in a counted loop
    ('define', 'll', (), (('repeat', ('count', N(2)), (('repeat', ('all', 'l', None), (('return', N(4)),)),)),)),
    # writes output of its own before returning
    ('define', 'pr', ('p',), (('print', V('p')), ('return', ('bin', '*', V('p'), N(2))))),
    # a printf of its own, with positional and named fields, while the caller's printf is collecting values
    ('define', 'pf', ('p',), (('printf', '<{} {x}>', (V('p'),)), ('return', N(8)))),
    # calls something itself (a built-in, a user routine) before it prints
    ('define', 'pc', ('p',), (('assign', 'q', ('call', 'round', (V('p'),))), ('print', V('q')), ('return', ('bin', '+', V('q'), N(1))))),
    ('define', 'pd', ('p',), (('assign', 'q', ('call', 'id', (V('p'),))), ('printf', '<{}:{}>', (V('q'), ('call', 'id', (N(2),)))),
                              ('return', V('q')))),
    # conditional return, no loop
    ('define', 'cr', ('p',), (('if', ((('bin', '>', V('p'), N(1)), (('return', N(1)),)),), None), ('return', N(0)))),
)
CALLS = [N(5), ('call', 'id', (N(9),)), ('call', 'lp', (N(10),)), ('call', 'll', ()), ('call', 'pr', (N(3),)),
         ('call', 'pf', (N(6),)), ('call', 'cr', (N(2),)), ('call', 'lp', (('call', 'lp', (N(1),)),)),
         ('call', 'pc', (N(2.6),)), ('call', 'pd', (N(4),))]


def call_programs(maxargs):
    """printf / print / println whose values are calls to routines that return out of loops, write output of
    their own or run a printf of their own — in every argument position."""
    fmts = {1: ['{}', '{x}{}', '{0}'], 2: ['{} {}', '{1} {0}', '{} {hue} {}'], 3: ['{} {} {}', '{2} {0} {1}']}
    for k in range(1, maxargs + 1):
        for args in itertools.product(CALLS, repeat=k):
            if not any(a[0] == 'call' for a in args):
                continue
            for f in fmts[k]:
                yield PRELUDE_C + (('print', N(1)), ('printf', 'T:' + f, tuple(args)), ('print', N(2)), DEVICE,
                                   ('printf', '{}', (N(3),)))
            if k <= 2:
                yield PRELUDE_C + tuple(('print', a) for a in args) + (('println', args[0]), DEVICE)


def expected_regex(events):
    """documented text of the reference's output events as a regular expression,
    plus the content pieces (white space removed) for order-vs-device checks"""
    rx = ''
    prev = None          # None | 'p' | 'f' | 'nl'
    for e in events:
        if e[0] == 'out':
            kind = 'f' if len(e) > 2 else 'p'
            text = str(e[1])
            if prev == 'p' and kind == 'p':
                rx += ' '
            elif prev in ('p', 'f') and (kind == 'f' or prev == 'f'):
                rx += r'[ \n]*'
            elif prev == 'nl' and False:
                pass
            rx += re.escape(text)
            prev = kind
        elif e[0] == 'nl':
            if prev == 'f':
                rx += r'[ \n]*'
                # the line break itself is part of the open junction after printf
            else:
                rx += r'\n'
            prev = 'nl' if prev != 'f' else 'fnl'
            if prev == 'fnl':
                prev = 'nl'
    return '^' + rx + r'[ \n]*$'


def squeeze(s):
    return re.sub(r'\s+', '', s)


def check_one(w, prog):
    """-> None | (kind, detail)"""
    r = refmod.Ref(w.population, cap=4000)
    try:
        want = r.run(prog)
    except (refmod.RefUndefined, refmod.RefCap):
        return 'undefined'
    text = render.render(prog)
    w.reset()
    saved = sys.stdout
    sys.stdout = StdoutRecorder(w.net.log)
    try:
        res = w.run_script(text)
    finally:
        sys.stdout = saved
    if not res.accepted:
        return ('rejected', text, res.errors)
    if res.abort or res.raised:
        return ('abort', text, repr(res.abort or res.raised))
    got_text = ''.join(e[1] for e in res.trace if e[0] == 'stdout')
    rx = expected_regex(want)
    if re.match(rx, got_text) is None:
        kind = 'stdout-text-differs'
        if squeeze(got_text) == squeeze(''.join(str(e[1]) for e in want if e[0] == 'out')):
            kind = 'stdout-separators-differ'
            wants_space = ' ' in re.sub(r'\\.', '', rx.replace('\\ ', ' '))
            if wants_space and ' ' not in got_text.replace('a b', ''):
                kind = 'stdout-separator-between-prints-missing'
        return (kind, text, 'stdout %r does not match %s' % (got_text, rx))
    # order relative to device commands: content before each device event
    exp_before, acc = [], ''
    for e in want:
        if e[0] == 'out':
            acc += squeeze(str(e[1]))
        elif e[0] == 'dev':
            exp_before.append(acc)
    got_before, acc = [], ''
    for e in res.trace:
        if e[0] == 'stdout':
            acc += squeeze(e[1])
        elif e[0] == 'dev':
            got_before.append(acc)
    if exp_before != got_before:
        return ('output-out-of-order-with-device-commands', text, '%r vs %r' % (exp_before, got_before))
    return None


def after_failed_job():
    """(first script, second script): the second job's output is what it writes when run alone, whether the first
    job ended normally, was stopped by an error in mid-line, or left a printf half collected"""
    firsts = ['print 1', 'print 1 println 2', 'print 1 hue {1 / 0}', 'print 1 hue {1 / 0} print 3',
              'printf "{} {}" 1 {1 / 0}', 'println 1 print 2 hue {1 / 0}', 'print "a" printf "{}\\n" 5 hue {1 / 0}']
    seconds = ['print 2', 'print 2 print 4', 'println 2', 'printf "{} {}" 3 4', 'printf "x{}\\n" 3 print 4']
    for a in firsts:
        for b in seconds:
            yield a, b


def _worker_d(rank, n):
    w = world.World(world.POP_ONE, output='stdout')
    st = dict(cases=0, undefined=0, texts=0, viol={})

    def stdout_of(texts):
        log = []
        saved = sys.stdout
        sys.stdout = StdoutRecorder(log)
        try:
            outs = []
            for t in texts:
                del log[:]
                w.reset()
                w.run_script(t)
                outs.append(''.join(e[1] for e in log if e[0] == 'stdout'))
        finally:
            sys.stdout = saved
        return outs
    for i, (a, b) in enumerate(after_failed_job()):
        if i % n != rank:
            continue
        st['cases'] += 1
        alone = stdout_of([b])[0]
        after = stdout_of([a, b])[1]
        if alone != after:
            cur = st['viol'].setdefault('output-depends-on-the-job-before', [0, '%s  |then|  %s' % (a, b),
                                                                         'alone %r, after the other job %r' % (alone, after)])
            cur[0] += 1
        else:
            st['texts'] += 1
    return st


def _worker(rank, n, part, maxlen):
    w = world.World(world.POP_ONE, output='stdout')
    st = dict(cases=0, undefined=0, texts=set(), viol={})
    if part == 'A':
        al = alphabet()
        gen = (PRELUDE + seq for k in range(1, maxlen + 1) for seq in itertools.product(al, repeat=k))
    elif part == 'C':
        gen = call_programs(maxlen)
    else:
        gen = (PRELUDE + (('print', N(1)), f, ('print', N(2)), DEVICE, f) for f in formats())
    for i, prog in enumerate(gen):
        if i % n != rank:
            continue
        st['cases'] += 1
        r = check_one(w, prog)
        if r is None:
            st['texts'].add(hash(prog) & 0xffffffff)
        elif r == 'undefined':
            st['undefined'] += 1
        else:
            kind, text, detail = r
            cur = st['viol'].get(kind)
            if cur is None:
                st['viol'][kind] = [1, text, detail]
            else:
                cur[0] += 1
                if len(text) < len(cur[1]):
                    cur[1], cur[2] = text, detail
    st['texts'] = len(st['texts'])
    return st


def run(tier, seed):
    rep = Report()
    maxlen = 3 if tier == 'quick' else 4
    ra = par.run(_worker, ('A', maxlen))
    rb = par.run(_worker, ('B', 0))
    rc = par.run(_worker, ('C', 2 if tier == 'quick' else 3)) + par.run(_worker_d, ())
    assert sum(r['cases'] - r['undefined'] for r in rc) > 100
    viol = {}
    for r in ra + rb + rc:
        for kind, (cnt, text, detail) in r['viol'].items():
            cur = viol.get(kind)
            if cur is None:
                viol[kind] = [cnt, text, detail]
            else:
                cur[0] += cnt
                if len(text) < len(cur[1]):
                    cur[1], cur[2] = text, detail
    for kind, (cnt, text, detail) in sorted(viol.items()):
        rep.violation(kind, '%s (%d cases), e.g. `%s`: %s' % (kind, cnt, text, detail),
                      {'script': text, 'detail': detail, 'cases': cnt})
    na, nb = sum(r['cases'] for r in ra), sum(r['cases'] for r in rb + rc)
    rep.coverage = {
        'states': na + nb, 'transitions': na + nb,
        'traces_validated_against_impl': na + nb - sum(r['undefined'] for r in ra + rb + rc),
        'evaluations': na + nb,
        'distinct_nontrivial': sum(r['texts'] for r in ra + rb + rc),
        'rule': 'A: every sequence of <=%d statements over a %d-statement output alphabet (after a fixed prelude); B: every '
                'format string of the field/spec/separator product between two prints and around a device command; C: printf/print '
                'values that are calls (routines returning out of loops, printing, running a printf of their own) in every position; D: a job '
                'after a job that ended normally / in an error / with a half-collected printf writes what it writes alone; '
                'stdout captured under the production binding; distinct_nontrivial = distinct programs whose text matched' % (
                    maxlen, len(alphabet())),
        'exhaustive': True,
        'sequences': na, 'format_cases': nb, 'call_value_cases': sum(r['cases'] for r in rc),
        'skipped_str_format_rejects': sum(r['undefined'] for r in ra + rb + rc),
        'samples': ['print hue print x', 'print 5 on "a" println "a b" printf "{x}:{}" 2.5',
                    'printf "T:{1:>6}\\\\n{0:.2f}" 5 2.5'],
    }
    rep.assumptions = ['white space at a printf junction and a final line break are not compared (the manual leaves them open)',
                       'format strings that str.format itself rejects are skipped and counted']
    return rep


def replay(path):
    import json
    v = json.load(open(path))
    text = v['witness']['script']
    w = world.World(world.POP_ONE, output='stdout')
    saved = sys.stdout
    sys.stdout = StdoutRecorder(w.net.log)
    try:
        res = w.run_script(text)
    finally:
        sys.stdout = saved
    print('script:', text)
    print('recorded:', v['sig'], v['witness']['detail'])
    print('stdout now: %r' % ''.join(e[1] for e in res.trace if e[0] == 'stdout'))
    return False
