"""C15 — zone and row/column addressing hits exactly the addressed cells, once each.

Shape E: every zone range on strips of 1, 2, 8, 16 zones; on matrices 1x1,
2x3, 3x2, 6x5 every rectangle in the one-line form and as a one-stage block
(rows/columns in either order; bounds as literal, variable, expression), every
sequence of <= 2 (thorough 3) stage rectangles with and without a saved
default, stages from a loop index and from a routine; all three unit modes with
non-integral values.  Device state and request log vs the reference painting.
"""
from .. import world
from ..cli import Report
from . import progcheck

D = world.Dev


def run(tier, seed):
    rep = Report()
    acc = progcheck.Accum()
    for n in (1, 2, 8, 16):
        pop = (D('a', 'g', 'p'), D('s', 'g', 'p', 'strip', n))
        acc.run('zones/%d' % n, 'mc.lang.gen_matrix', 'zone_programs', (n,), pop)
    for h, w in ((1, 1), (2, 3), (3, 2), (6, 5)):
        pop = (D('a', 'g', 'p'), D('m', 'g', 'p', 'matrix', 0, h, w))
        big = (h, w) == (6, 5)
        if tier == 'quick':
            stages, reduced = 2, big
        else:
            stages, reduced = (2, False) if big else (3, False)
        acc.run('matrix/%dx%d/stages<=%d%s' % (h, w, stages, '/reduced-pairs' if reduced else ''),
                'mc.lang.gen_matrix', 'matrix_programs', (h, w, stages, reduced), pop)
    from ..lang import gen_matrix
    acc.run('and-lists<=%d' % (2 if tier == 'quick' else 3), 'mc.lang.gen_matrix', 'and_list_programs',
            (2 if tier == 'quick' else 3,), tuple(D(*d) for d in gen_matrix.AND_POP))
    acc.report(rep, 'every zone range (a, a..b) on strips of 1,2,8,16 zones; every inclusive row/column range with either end '
                    'omitted, in the one-line and the one-stage-block form; every sequence of stage rectangles up to the stated '
                    'length (6x5: pairs over a reduced rectangle set in quick, all pairs in thorough); with/without default; '
                    'loop-index and routine stages; one `set` with every ordered list of 2 (thorough 3) operands over matrix/block/zone/'
                    'light/group joined by `and`; three unit modes; compared with the reference painting and conversion')
    return rep


replay = progcheck.replay
