"""C06 — the compiler always ends in accept or a line-numbered rejection.

 (a) every token string of length <= 3 over a ~100-token vocabulary, raw and
     after a prelude that defines a variable, a macro and a routine;
 (b) every single-point mutation (delete, duplicate, swap, truncate, replace by
     a vocabulary token) of every program of the valid corpus;
 (c) every character string of length <= 2 over Latin-1 and length 3 over a
     40-symbol set;
 (d) constructed rule-breakers over contexts: must be rejected;
 (e) expression-shaped texts; (f) every control skeleton of C05's alphabet (up to two routine definitions in
     any statement position, macros, row/column commands, every loop kind): accepted => executable;
 (g) texts whose size is the parameter: every nesting depth and every literal length up to a bound.
Oracle: ScriptJob.from_string never raises; rejected => a `Line <n>:` message and
job.program is None; accepted => loaded and run (recording clock, step cap) with
no internal fault of the VM machinery.
"""
import itertools
import re
import signal

from .. import par, world
from ..cli import Report
from ..lang import corpus

from bardolph.controller.script_job import ScriptJob

KEYWORDS = ('all and as assign at begin break breakpoint column cycle default define else end from get '
            'group if in location logical not off on or pause print printf println raw repeat return rgb '
            'row set stage time to units wait while with zone').split()
REGISTERS = 'hue saturation brightness kelvin red green blue duration'.split()
MARKS = ['{', '}', '[', ']', '(', ')', '+', '-', '*', '/', '%', '^', ':', '#']
COMPARES = ['<', '<=', '>', '>=', '==', '!=']
VALUES = ['0', '5', '2.5', '.5', '"a"', '""', '"{}"', '"{} {x}"', '"{"', '"}{"', '"{0"', '"{:"', '"{!}"', 'x', 'f', 'm', 'zz', '8:00', '*:15', '24:00', '1:5']
INTERNAL = ('number eof error mark name null unknown compare register literal_string syntax_error '
            'time_pattern').split()
ODD = ['"abc', '@', '$', '\\', 'é', '12abc', '1.2.3', 'H', 'S', 'B', 'K', 'IF', 'Define', '_', '\t']
VOCAB = KEYWORDS + REGISTERS + MARKS + COMPARES + VALUES + INTERNAL + ODD
CORE = ['^', 'all', 'and', 'begin', 'end', 'define', 'if', 'else', 'repeat', 'break', 'return', 'with', 'as',
        'hue', 'time', 'at', 'set', 'on', 'print', 'printf', '{', '}', '[', ']', '(', ')', '-', '+', '<',
        '5', '"a"', 'x', 'f', 'm', '8:00', 'eof', 'number', '"abc', 'zone', 'row', 'stage']
PRELUDE = 'assign x 1 define m 5 define f with p begin print p end '

LINE = re.compile(r'Line \d+:')

# where an exception inside Machine.run counts as an internal fault of the machinery
FAULT_PLACES = ('machine.py:run', 'machine.py:_jsr', 'machine.py:_return', 'machine.py:_end', 'machine.py:_jump',
                'machine.py:_color', 'machine.py:_power', 'machine.py:current_inst', 'machine.py:_param',
                'call_stack.py:', 'loader.py:', 'eval_stack.py:', 'routine.py:')


class _TooLong(BaseException):
    pass


def _alarm(signum, frame):
    raise _TooLong()


TIME_LIMIT_S = 10          # per text; a compile takes well under a millisecond
_timeouts = [0]


def judge(w, text, must_reject=False):
    """-> (outcome, kind, detail).  outcome: accept | reject | viol"""
    if _timeouts[0] >= 3:
        return 'reject', None, None          # this worker already reported texts that do not finish; do not spend hours
    signal.signal(signal.SIGALRM, _alarm)
    signal.setitimer(signal.ITIMER_REAL, TIME_LIMIT_S)
    try:
        try:
            return _judge(w, text, must_reject)
        finally:
            signal.setitimer(signal.ITIMER_REAL, 0)
    except _TooLong:
        _timeouts[0] += 1
        return 'viol', 'compiler-or-vm-does-not-finish', 'no result within %d s' % TIME_LIMIT_S


def _judge(w, text, must_reject=False):
    try:
        job = ScriptJob.from_string(text)
    except _TooLong:
        raise
    except Exception as ex:
        return 'viol', 'compiler-raises:' + type(ex).__name__, repr(ex)
    prog = job.program
    errs = job.compile_errors
    if prog is None:
        if not LINE.search(errs or ''):
            return 'viol', 'rejected-without-line-numbered-message', repr(errs)
        return 'reject', None, None
    if errs:
        # a program was produced although diagnostics were issued
        return 'viol', 'accepted-with-error-messages', repr(errs)
    if must_reject:
        return 'viol', 'rule-breaker-accepted', ''
    w.reset()
    res = w.run_program(prog, cap=2000, machine=job._machine)
    if res.raised and '_TooLong' in res.raised:
        # the compiler finished; the run is long because of the script's own arithmetic (e.g. 120 ^ 30 ^ 30 ...)
        return 'accept', 'script-error:run-exceeded-time-limit', None
    if res.raised:
        return 'viol', 'vm-raises:' + res.raised.split(':')[0], res.raised
    if res.abort:
        msg, et, ev, where = res.abort
        where = str(where)
        internal = et == 'KeyError' or \
            (et in ('IndexError', 'AssertionError') and where.startswith(('eval_stack.py:', 'call_stack.py:', 'machine.py:run'))) or \
            (et in ('AttributeError', 'TypeError') and any(where.startswith(p) for p in FAULT_PLACES))
        if internal:
            return 'viol', 'vm-internal-fault:%s@%s' % (et, where), msg
        return 'accept', 'script-error:%s@%s' % (et, where), None
    return 'accept', None, None


class Tally:
    def __init__(self):
        self.n = 0
        self.accept = 0
        self.reject = 0
        self.script_errors = {}
        self.viol = {}

    def add(self, text, outcome, kind, detail):
        self.n += 1
        if outcome == 'accept':
            self.accept += 1
            if kind:
                self.script_errors[kind] = self.script_errors.get(kind, 0) + 1
        elif outcome == 'reject':
            self.reject += 1
        else:
            cur = self.viol.get(kind)
            if cur is None:
                self.viol[kind] = [1, text, detail]
            else:
                cur[0] += 1
                if len(text) < len(cur[1]):
                    cur[1], cur[2] = text, detail

    def dump(self):
        return dict(n=self.n, accept=self.accept, reject=self.reject,
                    script_errors=self.script_errors, viol=self.viol)


def _part_a(rank, n, maxlen, vocab):
    w = world.World(world.POP_MIXED)
    t = Tally()
    idx = 0
    for k in range(1, maxlen + 1):
        for combo in itertools.product(vocab, repeat=k):
            idx += 1
            if idx % n != rank:
                continue
            text = ' '.join(combo)
            t.add(text, *judge(w, text))
            text2 = PRELUDE + text
            t.add(text2, *judge(w, text2))
    return t.dump()


def mutations(tokens, repl):
    n = len(tokens)
    for i in range(n):
        yield tokens[:i] + tokens[i + 1:]
        yield tokens[:i + 1] + tokens[i:]
        if i + 1 < n:
            yield tokens[:i] + [tokens[i + 1], tokens[i]] + tokens[i + 2:]
        yield tokens[:i + 1]
        for r in repl:
            if r != tokens[i]:
                yield tokens[:i] + [r] + tokens[i + 1:]


def _part_b(rank, n, seeds, repl):
    w = world.World(world.POP_MIXED)
    t = Tally()
    idx = 0
    for name, toks in seeds:
        for mut in mutations(toks, repl):
            idx += 1
            if idx % n != rank:
                continue
            text = ' '.join(mut)
            t.add(text, *judge(w, text))
    return t.dump()


SYMS40 = list('0159 \t"#{}[]()+-*/%^:<>=!.,_aHxf\\@$\'&|~?;')


def _part_c(rank, n, thorough):
    w = world.World(world.POP_MIXED)
    t = Tally()
    latin = [chr(c) for c in range(256)]
    idx = 0
    gens = [itertools.product(latin, repeat=1), itertools.product(latin, repeat=2),
            itertools.product(SYMS40, repeat=3)]
    if thorough:
        gens.append(itertools.product(SYMS40[:24], repeat=4))
    for g in gens:
        for combo in g:
            idx += 1
            if idx % n != rank:
                continue
            text = ''.join(combo)
            t.add(text, *judge(w, text))
            if idx % 7 == 0:
                text2 = 'print ' + text
                t.add(text2, *judge(w, text2))
    return t.dump()


def expression_texts():
    """(e) expression-shaped texts: every pair of operators between three operands, with parentheses, a leading
    minus, a missing operand -- well-formed ones must compile and run, the rest must be rejected; all must finish."""
    ops = ['^', '*', '/', '%', '+', '-', '<', '<=', '>', '>=', '==', '!=', 'and', 'or', 'not', '=', '&&', '**']
    for a, b in itertools.product(ops, repeat=2):
        yield 'assign q { 2 %s 3 %s 2 }' % (a, b)
        yield 'assign q { ( 2 %s 3 ) %s 2 }' % (a, b)
        yield 'assign q { 2 %s ( 3 %s 2 ) }' % (a, b)
        yield 'assign q { - 2 %s - 3 %s - 2 }' % (a, b)
        yield 'assign q { 2 %s %s 2 }' % (a, b)
        yield 'if { x %s 3 %s [ f 2 ] } on all' % (a, b)
    for a, b, c in itertools.product(['*', '-', '/', '<', 'and'], repeat=3):     # no ^ towers: 2^3^2^5 is astronomically large
        yield 'assign q { 2 %s 3 %s 2 %s 5 }' % (a, b, c)
    # operands of every kind in every position, among them strings spelled like operators, braces round an
    # operand, calls and parenthesised operands
    operands = ['2', 'x', '"^"', '"+"', '"and"', '"not"', '"("', '{ 3 }', '{ x + 1 }', '[ f 2 ]', '( 3 )', 'hue', 'm', '-2']
    for op in ('^', '*', '+', '<', 'and'):
        for x, y in itertools.product(operands, repeat=2):
            yield 'assign q { %s %s %s }' % (x, op, y)
            yield 'print { 2 %s %s %s }' % (op, x, y)            # an operand too many
        for x in operands:
            yield 'print { %s }' % x
            yield 'print { { %s } }' % x
            yield 'if { %s %s 2 ^ 2 } on all' % (x, op)


def _part_e(rank, n):
    w = world.World(world.POP_MIXED)
    t = Tally()
    for i, text in enumerate(expression_texts()):
        if i % n != rank:
            continue
        text = PRELUDE + text
        t.add(text, *judge(w, text))
    return t.dump()


def rule_breakers():
    ctxs = [('top', '%s'), ('if', 'if 1 begin %s end'), ('loop', 'repeat 2 begin %s end'),
            ('routine', 'define r begin %s end r'), ('else', 'if 0 print 1 else begin %s end')]
    out = []
    for cname, ctx in ctxs:
        def add(tag, body, pre=''):
            out.append(('%s/%s' % (tag, cname), pre + ctx % body))
        if cname != 'loop':
            add('break-outside-loop', 'break')
        add('assign-to-macro', 'assign m 3', 'define m 5 ')
        add('macro-redefined', 'define m 6', 'define m 5 ')
        # every other way of giving a macro a new meaning or value
        if cname != 'routine':
            add('macro-redefined-as-routine', 'define m begin on all end', 'define m 5 ')
            add('macro-redefined-as-routine', 'define m with p on all', 'define m 5 ')
        for body in ('repeat with m from 1 to 3 on all', 'repeat 2 with m cycle on all', 'repeat all as m on m',
                     'repeat group as m on group m', 'repeat in "a" as l with m from 1 to 2 on l', 'get "a" assign m hue'):
            add('assign-to-macro-by-loop', body, 'define m 5 ')
        # a variable that does not exist before the loop, read in the loop's own header
        for body in ('repeat with nv from nv to 3 on all', 'repeat with nv from 1 to nv on all',
                     'repeat 2 with nv cycle nv on all', 'repeat nv with nv from 1 to 3 on all'):
            add('undefined-name-in-own-loop-header', body)
        # headers with a part missing
        for body in ('repeat with i in "a" and "b" on all', 'repeat in "a" and "b" on all', 'repeat all on all',
                     'repeat with i on all', 'repeat with i from 1 on all', 'stage begin end',
                     'set "m" begin stage begin end end'):
            add('incomplete-construct', body)
        for body in ('set "m" begin stage row 0 set "m" row 1 end', 'set "m" begin set "m" column 0 end',
                     'set "m" begin stage row 0 set "m" begin stage row 1 end end'):
            add('matrix-command-inside-matrix-block', body)
        if cname != 'routine':
            add('routine-redefined', 'define g on all', 'define g off all ')
        for pos, body in [('register', 'hue nosuch'), ('assign', 'assign y nosuch'), ('argument', 'f nosuch'),
                          ('if', 'if nosuch on all'), ('if-expr', 'if {nosuch > 1} on all'),
                          ('while', 'repeat while nosuch on all'), ('count', 'repeat nosuch on all'),
                          ('from', 'repeat with i from nosuch to 3 on all'), ('to', 'repeat with i from 1 to nosuch on all'),
                          ('print', 'print nosuch'), ('operand', 'on nosuch'), ('group', 'on group nosuch'),
                          ('zone', 'set "s" zone nosuch'), ('get', 'get nosuch'), ('call', 'nosuch'),
                          ('bracket-call', '[nosuch]'), ('macro-of', 'define q nosuch'), ('expr', 'hue {1 + nosuch}'),
                          ('printf', 'printf "{}" nosuch'), ('cycle', 'repeat 2 with v cycle nosuch on all'),
                          ('in', 'repeat in nosuch as l on l')]:
            add('undefined-name-in-' + pos, body, 'define f with p print p ')
        if cname == 'routine':
            out.append(('routine-inside-routine', 'define outer begin define inner on all end'))
            out.append(('routine-inside-routine/nested', 'define outer begin if 1 begin define inner on all end end'))
        add('missing-end', 'begin on all' if cname == 'top' else 'on all begin', '')
        for tag, body in [('unbalanced-brace', 'hue {1 + 2'), ('unbalanced-brace-close', 'hue 1 }'),
                          ('unbalanced-bracket', 'print [f 1'), ('unbalanced-bracket-close', 'f 1 ]'),
                          ('unbalanced-paren', 'hue {(1 + 2}'), ('unbalanced-paren-close', 'hue {1 + 2)}'),
                          ('empty-braces', 'hue {}'), ('operator-without-operand', 'hue {1 +}')]:
            add(tag, body, 'define f with p print p ')
        for tag, pat in [('malformed-pattern', '12:5'), ('malformed-pattern', '1:234'), ('impossible-pattern', '25:00'),
                         ('impossible-pattern', '12:60'), ('impossible-pattern', '3*:00'), ('impossible-pattern', '*:6*'),
                         ('malformed-pattern', '**:08'), ('malformed-pattern', '*'), ('not-a-pattern', '5'),
                         ('not-a-pattern', '"8:00"'), ('missing-alternative', '8:00 or'),
                         ('minus-before-pattern', '-8:00')]:
            add(tag, 'time at %s on all' % pat)
        add('minus-before-pattern-assign', 'assign t -8:00')
        add('minus-before-string', 'assign t -"a"')
    # a nested definition after each kind of inner construct of the outer routine
    for inner in ('set "m" begin stage row 0 end', 'repeat 2 begin on all end', 'if 1 begin on all end',
                  'set "m" row 0', 'repeat all as l on l', 'print [round 1.5]', 'set "m" begin if 1 stage row 0 end'):
        out.append(('routine-inside-routine/after-inner-construct',
                    'define outer begin %s define inner on all end outer' % inner))
    # a break that is not inside a loop *of its own routine*
    out.append(('break-outside-loop/routine-defined-in-loop', 'repeat 2 begin define f begin break end f end'))
    out.append(('break-outside-loop/routine-defined-in-loop', 'repeat 2 begin define f break f end'))
    out.append(('break-outside-loop/routine-defined-in-loop', 'repeat all as l begin define f with x begin if x break end f 1 end'))
    # missing end at end of input
    out.append(('missing-end/eof', 'define r begin on all'))
    out.append(('missing-end/eof', 'if 1 begin on all'))
    out.append(('missing-end/eof', 'repeat 2 begin on all'))
    out.append(('missing-end/eof', 'set "m" begin stage row 1'))
    # an unfinished statement at the very end, after a macro named like the text of the end-of-file token
    for last in ('define a', 'assign a', 'hue', 'print [', 'repeat', 'time at'):
        out.append(('missing-value/eof', 'define eof 5 ' + last))
        out.append(('missing-value/eof', 'assign eof 5 ' + last))
    return out


def _merge(dumps):
    tot = dict(n=0, accept=0, reject=0, script_errors={}, viol={})
    for d in dumps:
        for k in ('n', 'accept', 'reject'):
            tot[k] += d[k]
        for k, v in d['script_errors'].items():
            tot['script_errors'][k] = tot['script_errors'].get(k, 0) + v
        for k, (cnt, text, detail) in d['viol'].items():
            cur = tot['viol'].get(k)
            if cur is None:
                tot['viol'][k] = [cnt, text, detail]
            else:
                cur[0] += cnt
                if len(text) < len(cur[1]):
                    cur[1], cur[2] = text, detail
    return tot


def _part_f(rank, n, size):
    """every control skeleton (routine definitions in every statement position, up to two of them, macros,
    row/column commands, empty blocks, every loop kind, break/return): accepted => runs without internal fault"""
    from ..lang import gen_k, render
    w = world.World(world.POP_MIXED)
    t = Tally()
    for i, (sz, prog) in enumerate(gen_k.extended_programs(size)):
        if i % n != rank:
            continue
        text = render.render(prog)
        t.add(text, *judge(w, text))
    return t.dump()


def size_texts(thorough):
    """(g) texts whose size is the parameter: every nesting depth 1..D of each nesting construct and every
    length of a numeric literal (all depths/lengths up to a bound, then decades): the compiler must finish in
    accept or a line-numbered rejection for each"""
    depths = list(range(1, 401 if not thorough else 1201)) + [1500, 2000, 3000, 5000, 10000]
    for d in depths:
        yield 'print { ' + '( ' * d + '1' + ' )' * d + ' }'
        yield 'print ' + '{ ' * d + '1' + ' }' * d
        yield 'if 1 ' * d + 'print 1'
        yield 'repeat 1 ' * d + 'print 1'
        yield 'if 1 begin ' * d + 'print 1' + ' end' * d
        yield 'print ' + '[ f ' * d + '1' + ' ]' * d
        yield 'print { ' + '- ' * d + '1 }'
        yield 'print { 1 ' + '+ 1 ' * d + '}'
        yield 'print { 2 ' + '^ 1 ' * d + '}'
        yield 'if 0 print 0 ' + 'else if 0 print 0 ' * d + 'else print 1'
    lengths = list(range(1, 41)) + list(range(50, 6001, 50)) + [4299, 4300, 4301, 10000]
    for n in lengths:
        yield 'print ' + '9' * n
        yield 'print -' + '1' * n
        yield 'print 0.' + '0' * n + '1'
        yield 'print ' + '1' * n + '.5'
        yield 'assign v ' + '7' * n + ' print 1'
        yield 'print "' + 'a' * n + '"'
        yield 'print ' + 'n' * n


def _part_g(rank, n, thorough):
    w = world.World(world.POP_MIXED)
    t = Tally()
    for i, text in enumerate(size_texts(thorough)):
        if i % n != rank:
            continue
        text = PRELUDE + text
        t.add(text[:300] + ('...[%d characters]' % len(text) if len(text) > 300 else ''), *judge(w, text))
    return t.dump()


def run(tier, seed):
    rep = Report()
    thorough = tier == 'thorough'
    parts = {}
    parts['a:tokens<=3'] = _merge(par.run(_part_a, (3, VOCAB)))
    if thorough:
        parts['a:core-tokens=4'] = _merge(par.run(_part_a, (4, CORE)))
    w = world.World(world.POP_MIXED)
    seeds = []
    for name, text in corpus.all_texts():
        toks = corpus.split_tokens(text)
        if 0 < len(toks) <= 400 and judge(w, ' '.join(toks))[0] == 'accept':
            seeds.append((name, toks))
    parts['b:mutations'] = _merge(par.run(_part_b, (seeds, VOCAB if thorough else CORE)))
    parts['c:characters'] = _merge(par.run(_part_c, (thorough,)))
    parts['e:expressions'] = _merge(par.run(_part_e, ()))
    parts['f:control-skeletons'] = _merge(par.run(_part_f, (6 if thorough else 5,)))
    parts['g:sizes'] = _merge(par.run(_part_g, (thorough,)))
    assert parts['f:control-skeletons']['accept'] > 1000
    t = Tally()
    for tag, text in rule_breakers():
        outcome, kind, detail = judge(w, text, must_reject=True)
        if outcome == 'viol' and kind == 'rule-breaker-accepted':
            kind = 'rule-breaker-accepted:' + tag.split('/')[0]
        t.add(text, outcome, kind, detail)
    parts['d:rule-breakers'] = t.dump()
    total = _merge(parts.values())
    for kind, (cnt, text, detail) in sorted(total['viol'].items()):
        rep.violation(kind, '%s (%d texts), e.g. %r: %s' % (kind, cnt, text, detail),
                      {'text': text, 'detail': detail, 'texts_with_this_signature': cnt})
    rep.coverage = {
        'states': total['n'],
        'transitions': total['accept'] + total['reject'],
        'traces_validated_against_impl': total['n'],
        'evaluations': total['n'],
        'distinct_nontrivial': total['accept'],
        'rule': 'every text of parts a-g is compiled by ScriptJob.from_string on the real parser; accepted ones are loaded '
                'and run on the real VM (cap 2000 steps); distinct_nontrivial = texts the compiler accepted (each executed)',
        'exhaustive': True,
        'texts_per_part': {k: v['n'] for k, v in parts.items()},
        'accepted_per_part': {k: v['accept'] for k, v in parts.items()},
        'corpus_programs_used_as_seeds': len(seeds),
        'vocabulary_size': len(VOCAB),
        'script_level_errors_not_judged': dict(sorted(total['script_errors'].items(), key=lambda kv: -kv[1])[:15]),
        'samples': ['repeat with number', PRELUDE + 'print [ f', 'time at -8:00 on all', 'define m 5 define m 6'],
    }
    rep.assumptions = ['internal fault = KeyError anywhere under Machine.run (dispatch tables), IndexError/AssertionError in the evaluation '
                       'stack, call stack or run loop, AttributeError/TypeError raised in dispatch, call-stack, loader or '
                       'evaluation-stack code; other exceptions (division by zero, arithmetic on a string or an unset variable, '
                       'row/column outside the matrix) are script-level errors and only counted (histogram in coverage)']
    return rep


def replay(path):
    import json
    v = json.load(open(path))
    text = v['witness']['text']
    w = world.World(world.POP_MIXED)
    print('text: %r' % text)
    print('recorded:', v['sig'], v['witness']['detail'])
    out = judge(w, text)
    print('now:', out)
    return out[0] != 'viol'
