"""C17 — compiles and runs are independent of history.

 (a) shape B: explicit-state search over sequences of compile requests on ONE
     Parser object (29 texts: valid ones of different kinds, invalid ones that
     fail inside a loop, a routine, a matrix block, an expression, a parameter
     list, at end of input); canonical parser state hashed for de-duplication;
     differential oracle: result, listing and error text equal a fresh Parser's.
 (b) for every program of slices K/V/X: run; run again on the same machine; for
     EVERY k <= number of instructions, run with stop() issued at instruction k
     and then run again; every complete run's trace equals the first; the
     compiled listing is identical before and after.
 (c) jobs back to back: every ordered pair over a menu of state-dirtying jobs:
     the second job's trace equals its trace when run alone; re-running the
     first equals its first run.
"""
import hashlib
import itertools
from collections import deque

from .. import par, world
from ..cli import Report
from ..lang import gen_k, gen_v, gen_x, render
from .c16 import listing

from bardolph.controller.script_job import ScriptJob
from bardolph.parser.parse import Parser

TEXTS = [
    'on all',
    'define f with p begin print p end f 5',
    'repeat 2 begin hue 5 set all end',
    'set "m" begin stage row 0 end',
    'assign x 5 if {x > 1} print x',
    'define m 5 hue m',
    'repeat 2 begin on all zz',
    'define f begin on all zz',
    'set "m" begin stage row 0 zz',
    'hue {1 + }',
    'define g with a a on all',
    'if 1 begin on all',
    'define f with p begin repeat 2 begin break zz',
    'break',
    # names introduced by a text that is rejected half-way (parameter p, local loc, global gv, macro mac, routine f)
    # and texts that probe each of those names afterwards: read it, define it as a macro, as a routine, assign it
    'assign gv 1 define mac 2 define f with p begin assign loc 3 zz',
    'print p',
    'print loc',
    'print gv',
    'print mac',
    'f 1',
    'define p 7 print p',
    'define loc with q begin print q end loc 1',
    'define mac 9 assign gv mac print gv',
    'assign p 1 assign loc 2 print {p + loc}',
    # a built-in function's name used as a variable / loop variable by one text, the function called by another
    'assign round 3 repeat with floor from 1 to 2 print {round + floor}',
    'print [round 2.5] print [floor 2.5]',
    # a routine definition that fails in its header or body while it sits inside a loop, and loops with break
    'repeat 2 begin define g with a a on all end',
    'repeat 2 begin repeat 3 begin define h begin on all zz',
    'repeat 2 begin on all break end repeat while {1 > 0} break',
]


def fresh_result(text):
    p = Parser()
    try:
        ok = p.parse(text)
    except Exception as ex:
        return ('raises', repr(ex), None)
    return (bool(ok), p.get_errors(), listing(p.get_program()) if ok else None)


def parser_canon(p):
    c = p._context
    tok = p._current_token
    cg = p._code_gen
    return (c._in_matrix, c._in_routine, getattr(c, '_loop_depth', 0), len(c._loop_stack),
            tuple(sorted((k, str(v.symbol_type)) for k, v in c._globals._dict.items()
                         if str(v.symbol_type) != 'SymbolType.ROUTINE' or not hasattr(v.value, 'invoke'))),
            tuple(sorted(c._locals._dict)),
            (str(tok.token_type), tok.content), str(p._op_code),
            getattr(cg, '_out_of_line', 0), getattr(cg, '_routine_start', None) is not None)


def compile_histories(max_depth):
    """BFS over histories; -> stats, violations"""
    want = [fresh_result(t) for t in TEXTS]

    def build(hist):
        p = Parser()
        last = None
        for i in hist:
            try:
                ok = p.parse(TEXTS[i])
                last = (bool(ok), p.get_errors(), listing(p.get_program()) if ok else None)
            except Exception as ex:
                last = ('raises', repr(ex), None)
        return p, last
    p0, _ = build([])
    seen = {parser_canon(p0)}
    frontier = deque([()])
    transitions = 0
    viol = []
    depth_reached = 0
    fixpoint = True
    while frontier:
        hist = frontier.popleft()
        if len(hist) >= max_depth:
            fixpoint = False
            continue
        for i in range(len(TEXTS)):
            h2 = hist + (i,)
            p, last = build(h2)
            transitions += 1
            depth_reached = max(depth_reached, len(h2))
            if last != want[i]:
                what = 'result' if last[0] != want[i][0] else ('errors' if last[1] != want[i][1] else 'listing')
                viol.append((what, h2, last, want[i]))
            k = parser_canon(p)
            if k not in seen:
                seen.add(k)
                frontier.append(h2)
    return dict(states=len(seen), transitions=transitions, depth=depth_reached, fixpoint=fixpoint), viol


# ---------------------------------------------------------------- (b)
def rerun_family():
    """Programs that leave the machine in every combination of unit mode, registers, variables, default colour,
    pending output and loop/call state when they end or are stopped: all sequences of <= 4 statements over a
    small alphabet after a prelude that makes every register non-zero."""
    N = lambda v: ('num', v)
    S = lambda x: ('str', x)
    prelude = (('setreg', 'hue', N(120)), ('setreg', 'saturation', N(50)), ('setreg', 'brightness', N(25)),
               ('setreg', 'kelvin', N(2700)), ('setreg', 'duration', N(1.5)), ('setreg', 'time', N(2)))
    alpha = [('act', 'set', (('light', S('a')),)), ('act', 'set', (('all',),)), ('act', 'on', (('group', S('g')),)),
             ('units', 'raw'), ('units', 'rgb'), ('units', 'logical'),
             ('act', 'set', (('zone', S('s'), N(1), N(2)),)), ('act', 'set', (('matrix', S('m'), (N(0), None), None),)),
             ('setdefault',), ('assign', 'x', ('reg', 'hue')), ('print', ('reg', 'hue')), ('wait',),
             ('printf', '{} {}', (N(1), ('bin', '/', N(1), N(0)))), ('printf', '{}', (N(5),)), ('printf', '{} {}', (N(1), N(2))),
             ('setreg', 'hue', ('bin', '/', N(1), N(0))),
             ('defmacro', 'lvl', N(5)), ('printf', '{lvl} {}', (N(7),)), ('printf', '{x} {hue}', ()),
             ('repeat', ('range', 'lv', N(1), N(2)), (('setreg', 'hue', ('var', 'lv')), ('act', 'set', (('light', S('a')),)))),
             ('assign', 'lv', N(7))]
    for n in (1, 2, 3, 4):
        for seq in itertools.product(alpha, repeat=n):
            if n == 4 and not any(s[0] == 'units' for s in seq):
                continue
            if sum(1 for s in seq if s[0] == 'units') == 0 and n > 2:
                continue
            yield prelude + seq


def _run_worker(rank, n, stride):
    w = world.World(world.POP_MIXED)
    st = dict(programs=0, runs=0, steps=0, traces=set(), viol={})
    gens = itertools.chain(
        ((0, p) for p in rerun_family()),
        itertools.islice(gen_k.programs(5), 0, None, stride),
        itertools.islice(gen_v.programs(2, world.POP_MIXED), 0, None, max(1, stride // 2)),
        itertools.islice(gen_x.programs(3, world.POP_MIXED), 0, None, max(1, stride // 4)))

    def bad(kind, text, detail):
        cur = st['viol'].get(kind)
        if cur is None:
            st['viol'][kind] = [1, text, detail]
        else:
            cur[0] += 1
            if len(text) < len(cur[1]):
                cur[1], cur[2] = text, detail
    for idx, (sz, prog) in enumerate(gens):
        if idx % n != rank:
            continue
        text = render.render(prog)
        job = ScriptJob.from_string(text)
        if job.program is None:
            continue
        st['programs'] += 1
        before = listing(job.program)
        m = job._machine
        w.reset()
        r1 = w.run_program(job.program, cap=3000, machine=m)
        if r1.capped or r1.raised:
            continue
        if r1.abort:
            # a run that ends in a script-level error: the same job run again must behave the same
            w.reset()
            r2 = w.run_program(job.program, cap=3000, machine=m)
            st['runs'] += 2
            if r2.trace != r1.trace or (r2.abort or (None,))[1:] != r1.abort[1:]:
                bad('run-after-failed-run-differs', text, _first_diff(r1.trace, r2.trace, None))
            continue
        t1 = r1.trace
        nsteps = r1.steps
        st['runs'] += 1
        st['steps'] += nsteps
        st['traces'].add(hashlib.md5(repr(t1).encode()).digest()[:8])
        w.reset()
        r2 = w.run_program(job.program, cap=3000, machine=m)
        st['runs'] += 1
        if r2.trace != t1 or r2.abort:
            bad('second-run-differs', text, _first_diff(t1, r2.trace, r2.abort))
        for k in range(1, nsteps + 1):
            w.reset()
            rs = w.run_program(job.program, cap=3000, machine=m, stop_at=k)
            if not rs.abort:
                # commands and delays of a stopped run are a prefix of the complete run's (what a half-collected
                # print flushes when the run is cut short is not specified and not compared)
                keep = lambda tr: [e for e in tr if e[0] in ('dev', 'all', 'wait', 'wait_until')]
                a, b = keep(rs.trace), keep(t1)
                if a != b[:len(a)]:
                    bad('stopped-run-not-a-prefix', text, 'stop at %d: %s' % (k, _first_diff(b, a, None)))
            w.reset()
            ra = w.run_program(job.program, cap=3000, machine=m)
            st['runs'] += 2
            if ra.trace != t1 or ra.abort:
                bad('run-after-stop-differs', text, 'stopped at instruction %d: %s' % (k, _first_diff(t1, ra.trace, ra.abort)))
                break
        if listing(job.program) != before:
            bad('execution-alters-compiled-program', text, '')
    st['traces'] = list(st['traces'])
    return st


def _first_diff(a, b, abort):
    if abort:
        return 'abort %r' % (abort,)
    for i, (x, y) in enumerate(zip(a, b)):
        if x != y:
            return 'event %d: %r vs %r' % (i, x, y)
    return 'length %d vs %d' % (len(a), len(b))


# ---------------------------------------------------------------- (c)
JOBS = [
    'hue 120 saturation 50 brightness 25 kelvin 2000 duration 2 time 1 set all',
    'units raw hue 30000 time 500 on "a"',
    'units rgb red 100 green 50 blue 25 set "a"',
    'assign x 5 assign y "a" define f with p begin assign z p end f 3 on y',
    'print 1 print 2',
    'set default set "m" begin stage row 0',
    'repeat all as l begin on l break end',
    'define g begin repeat 3 begin return 5 end end print [g]',
    'time at 8:00 on "a"',
    'hue {1 / 0} on all',
    'print hue print saturation print duration print time on all',
    'set "m" row 0 column 1 set "s" zone 1 2',
]


def job_pairs():
    w = world.World(world.POP_MIXED)
    alone = []
    viol = []
    for t in JOBS:
        w.reset()
        job = ScriptJob.from_string(t)
        r = w.run_program(job.program, cap=3000, machine=job._machine) if job.program is not None else None
        alone.append(None if r is None else r.trace)
    n = 0
    for i, j in itertools.product(range(len(JOBS)), repeat=2):
        if alone[i] is None or alone[j] is None:
            continue
        n += 1
        ja = ScriptJob.from_string(JOBS[i])
        jb = ScriptJob.from_string(JOBS[j])
        w.reset()
        w.run_program(ja.program, cap=3000, machine=ja._machine)
        w.net.log.clear()
        for d in w.devices:
            d.reset_state()
        rb = w.run_program(jb.program, cap=3000, machine=jb._machine)
        if rb.trace != alone[j]:
            viol.append(('job-sees-previous-job', (JOBS[i], JOBS[j]), _first_diff(alone[j], rb.trace, rb.abort)))
        w.net.log.clear()
        for d in w.devices:
            d.reset_state()
        ra = w.run_program(ja.program, cap=3000, machine=ja._machine)
        if ra.trace != alone[i]:
            viol.append(('rerun-after-other-job-differs', (JOBS[j], JOBS[i]), _first_diff(alone[i], ra.trace, ra.abort)))
    return n, viol


def job_reuse():
    """One ScriptJob compiles and runs text A, then compiles and runs text B: B behaves as on a fresh job."""
    w = world.World(world.POP_MIXED)
    texts = JOBS + ['print 1 on "a"', 'define f with p begin print p end f 5', 'hue 5 zz']
    alone = []
    for t in texts:
        w.reset()
        job = ScriptJob.from_string(t)
        r = w.run_program(job.program, cap=3000, machine=job._machine) if job.program is not None else None
        alone.append(('rejected', job.compile_errors) if r is None else ('ran', r.trace, (r.abort or (None,))[1:]))
    n = 0
    viol = []
    for i, j in itertools.product(range(len(texts)), repeat=2):
        n += 1
        job = ScriptJob()
        outs = []
        for k in (i, j):
            for d in w.devices:
                d.reset_state()
            w.net.log.clear()
            prog = job.load_string(texts[k])
            if prog is None:
                outs.append(('rejected', job.compile_errors))
            else:
                r = w.run_program(prog, cap=3000, machine=job._machine)
                outs.append(('ran', r.trace, (r.abort or (None,))[1:]))
        if outs[1] != alone[j]:
            viol.append(('reused-job-runs-previous-text-or-state', (texts[i], texts[j]),
                         'second text on a reused ScriptJob: %r, on a fresh one: %r' % (str(outs[1])[:200], str(alone[j])[:200])))
    return n, viol


CONCURRENT = [
    ('define f with x begin return {x * 2} end assign v 3 print [f v] print v',
     'define f with x begin return {x + 100} end assign v 50 print [f v] print v'),
    ('define m 5 define n "five" print m print n print {m + 1}', 'define m 9 define n "nine" print m print n print {m * 2}'),
    ('repeat in group "g" as l begin on l end', 'repeat location as l with h from 10 to 20 begin print l print h end'),
    ('assign i 0 repeat while {i < 2} begin assign i {i + 1} print i end',
     'repeat with i from 10 to 9 begin if {i == 9} break print i end print i'),
    ('define tp 12:00 time at tp or 13:30 on "a" time at tp on "a"', 'time at 1*:30 on "a" time 2 off "a"'),
    ('hue 5 set "m" row 0 get "m" print hue', 'hue 77 set "a" get "a" print hue print brightness'),
    ('assign x 7 printf "{} {x} {hue}" 5 println x', 'assign x 70 hue 200 printf "{x}:{}" {x / 7} println hue'),
    ('units rgb red 10 green 20 blue 30 set "s" zone 1 2 units logical print hue',
     'units raw hue 100 duration 1500 time 250 set "s" zone 5 units logical print duration print time'),
]


def run(tier, seed):
    rep = Report()
    world.World(world.POP_MIXED)          # injection bindings for the parent process
    assert fresh_result(TEXTS[0])[0] is True and fresh_result(TEXTS[6])[0] is False, 'harness: fresh compiles broken'
    depth = 3 if tier == 'quick' else 4
    cstats, cviol = compile_histories(depth)
    for what, hist, got, want in sorted(cviol, key=lambda v: len(v[1])):
        texts = [TEXTS[i] for i in hist]
        sig = 'compile-depends-on-history:' + what
        if all(fresh_result(t)[0] is True for t in texts[:-1]):
            sig += ':after-successful-compiles'
        elif 'begin stage' in ' '.join(texts[:-1]):
            sig += ':after-failure-in-matrix-block'
        rep.violation(sig, 'on one Parser, compiling %r gives %r, a fresh Parser %r' % (texts, got[:2], want[:2]),
                      {'history': texts, 'got': got, 'fresh': want})
    stride = 9 if tier == 'quick' else 1
    res = par.run(_run_worker, (stride,))
    viol = {}
    for r in res:
        for kind, (cnt, text, detail) in r['viol'].items():
            cur = viol.get(kind)
            if cur is None:
                viol[kind] = [cnt, text, detail]
            else:
                cur[0] += cnt
                if len(text) < len(cur[1]):
                    cur[1], cur[2] = text, detail
    for kind, (cnt, text, detail) in sorted(viol.items()):
        rep.violation(kind, '%s (%d programs), e.g. `%s`: %s' % (kind, cnt, text, detail),
                      {'script': text, 'detail': detail, 'programs': cnt})
    npairs, jviol = job_pairs()
    nreuse, rviol = job_reuse()
    npairs += nreuse
    jviol += rviol
    for kind, pair, detail in jviol:
        rep.violation(kind, '%s: first %r then %r: %s' % (kind, pair[0], pair[1], detail),
                      {'first_job': pair[0], 'second_job': pair[1], 'detail': detail})
    # (e) two jobs at the same time: nothing of one job shows in the other
    from . import concur
    cpairs = [(world.POP_MIXED, a, b, 1) for a, b in CONCURRENT]
    if tier != 'quick':
        cpairs.append((world.POP_MIXED, 'define m 5 print m', 'define m 9 print m', 2))
        cpairs.append((world.POP_MIXED, 'assign v 3 print v', 'assign v 50 print v', 2))
    ctasks = concur.split(cpairs, 4 if tier == 'quick' else 8)
    cres = par.run_tasks(concur.pair_task, ctasks)
    cexec = sum(r['execs'] for r in cres)
    assert cexec > 20 * len(cpairs)
    for task, r in zip(ctasks, cres):
        for kind, (cnt, choices, detail, texts) in r['viol'].items():
            rep.violation(kind, '%s (%d schedules): %s; jobs %r' % (kind, cnt, detail, texts),
                          {'pair': [list(t) for t in texts], 'choices': choices, 'detail': detail, 'schedules': cnt})
    tot = lambda k: sum(r[k] for r in res)
    traces = set()
    for r in res:
        traces.update(r['traces'])
    rep.coverage = {
        'states': cstats['states'] + tot('steps'),
        'transitions': cstats['transitions'] + tot('runs') + 2 * npairs + cexec,
        'traces_validated_against_impl': cstats['transitions'] + tot('runs') + 2 * npairs + cexec,
        'evaluations': cstats['transitions'] + tot('runs') + 2 * npairs + cexec,
        'distinct_nontrivial': len(traces),
        'rule': '(a) BFS over compile histories on one Parser (canonical parser state de-duplicated, depth cap %d); '
                '(b) for each program: 2 complete runs + for every instruction index k a stopped run and a complete run; '
                '(c) every ordered pair of %d jobs; (e) %d pairs of jobs on two controlled threads, every schedule with <=%d '
                'preemptions at line granularity, each job compared with its solo run.  distinct_nontrivial = distinct '
                'complete traces in (b)' % (depth, len(JOBS), len(cpairs), max(t[3] for t in cpairs)),
        'exhaustive': True,
        'compile_history_states': cstats['states'],
        'compile_history_transitions': cstats['transitions'],
        'compile_history_fixpoint_reached': cstats['fixpoint'],
        'compile_history_depth': cstats['depth'],
        'programs_run': tot('programs'),
        'runs': tot('runs'),
        'stop_points_explored': tot('steps'),
        'job_pairs': npairs,
        'concurrent_job_pairs': len(cpairs),
        'concurrent_schedules': cexec,
        'samples': [[TEXTS[8], TEXTS[0]], 'stop at every k of: repeat with i0 from 1 to 2 if { i0 == 1 } print 1', JOBS[3]],
    }
    rep.assumptions = ['device state is reset between the jobs of a pair (lights legitimately remember their colour); '
                       'recording clock and recording output sink']
    return rep


def replay(path):
    import json
    v = json.load(open(path))
    wit = v['witness']
    print('recorded:', v['sig'], v['what'][:300])
    if 'pair' in wit:
        from . import concur
        return concur.replay(world.POP_MIXED, wit['pair'], wit['choices'])
    if 'history' in wit:
        p = Parser()
        for t in wit['history']:
            ok = p.parse(t)
            print('  parse(%r) -> %r %r' % (t, ok, p.get_errors()))
        print('  fresh:', fresh_result(wit['history'][-1])[:2])
        return (bool(ok), p.get_errors()) == tuple(fresh_result(wit['history'][-1])[:2])
    return False
