"""C05 — on every path control stays in the script and frames balance.

For every control skeleton (slice K extended with routine definitions in every
statement position, every loop kind around break, return at every depth):
 1. the loader's image is explored as an abstract transition system
    (pc, frame stack) with both successors of every conditional jump, checking
    the invariants in every reachable state;
 2. the AST is turned into the source transition system;
 3. the two are compared by on-the-fly subset construction over marker moves;
 4. relocation: every jump of the pre-load listing leads to the same
    instruction object in the loaded image; routine table entries point at
    their bodies;
 5. conformance: the program is run on the real Machine and every concrete
    (pc, frame-kind stack) step must be an edge of system 1.
"""
from .. import par, world
from ..cli import Report
from ..explore import pda
from ..lang import gen_k, render

from bardolph.parser.parse import Parser
from bardolph.vm.call_stack import LoopFrame
from bardolph.vm.loader import Loader
from bardolph.vm.vm_codes import OpCode, Operand


def _project(state):
    pc, stack = state
    return (pc, tuple(e if e is pda.L else ('C', e[1]) for e in stack))


def _concrete_state(m):
    frames = []
    f = m._call_stack._top
    while f is not None and f.parent is not None:
        frames.append(pda.L if isinstance(f, LoopFrame) else ('C', f.return_addr))
        f = f.parent
    return (m._reg.pc, tuple(reversed(frames)))


def _relocation(P, Q, routines):
    """Every jump keeps its target across loading (targets counted over the
    instructions of the jump's own segment, as the parser counts them)."""
    idx_q = {id(inst): i for i, inst in enumerate(Q)}
    # region of each pre-load instruction: None = main, name = routine body
    region = []
    cur = None
    for inst in P:
        if inst.op_code is OpCode.ROUTINE:
            cur = inst.param0
            region.append(cur)
        elif inst.op_code is OpCode.END and cur is not None and inst.param0 == cur:
            region.append(cur)
            cur = None
        else:
            region.append(cur)
    for i, inst in enumerate(P):
        if id(inst) not in idx_q:
            return ('instruction-lost-in-loading', 'pre-load index %d %r' % (i, inst))
    seen = set()
    for inst in Q[1:] if len(Q) != len(P) else Q:
        if id(inst) in seen:
            return ('instruction-duplicated-in-loading', repr(inst))
        seen.add(id(inst))
    for i, inst in enumerate(P):
        if inst.op_code is not OpCode.JUMP:
            continue
        off = inst.param1
        if not isinstance(off, int):
            return ('jump-offset-unpatched', 'pre-load index %d offset %r' % (i, off))
        # walk |off| instructions of the same region in P
        j, left, step = i, abs(off), (1 if off >= 0 else -1)
        while left:
            j += step
            if j < 0:
                return ('jump-before-start', 'pre-load index %d' % i)
            if j >= len(P):
                j = len(P)
                left -= 1
                if left:
                    return ('jump-beyond-end', 'pre-load index %d offset %d' % (i, off))
                break
            if region[j] == region[i]:
                left -= 1
        want = P[j] if j < len(P) else None
        qi = idx_q[id(inst)] + off
        got = Q[qi] if 0 <= qi < len(Q) else None
        if region[i] is None and want is None:
            ok = qi == len(Q)
        else:
            ok = want is got
        if not ok:
            return ('relocation-changes-branch-target',
                    'jump at pre-load %d (offset %d): source target %r, image target %r' % (i, off, want, got))
    for name, r in routines.items():
        if hasattr(r, 'invoke'):
            continue
        a = r.get_address()
        if not (1 <= a <= len(Q)) or Q[a - 1].op_code is not OpCode.ROUTINE or Q[a - 1].param0 != name:
            return ('routine-entry-address-wrong', '%s -> %d' % (name, a))
    return None


def check_program(w, prog):
    """-> (status, kind, detail, stats)"""
    text = render.render(prog)
    parser = Parser()
    try:
        ok = parser.parse(text)
    except Exception as ex:
        return 'viol', 'compiler-raises', repr(ex), text, None
    if not ok:
        return 'rejected', None, parser.get_errors(), text, None
    P = parser.get_program()
    loader = Loader()
    loader.load(P)
    Q = loader.get_code()
    R = loader.get_routines()
    img = pda.ImageSystem(Q, R)
    try:
        states, edges = img.explore()
    except pda.Violation as v:
        return 'viol', v.kind, v.detail, text, None
    src = pda.SourceSystem(prog)
    path, oa, ob, pairs = pda.product(img, src)
    if path is not None:
        return 'viol', 'image-and-source-disagree-on-a-path', \
            'after markers %r the image can do %s, the source %s' % (list(path), oa, ob), text, None
    rel = _relocation(P, Q, R)
    if rel is not None:
        return 'viol', rel[0], rel[1], text, None
    # conformance
    proj = {(_project(a), _project(b)) for a, b in edges}
    steps = []
    w.reset()
    res = w.run_program(P, cap=3000, observer=lambda m: steps.append(_concrete_state(m)))
    if res.abort or res.raised:
        return 'viol', 'concrete-run-aborts', repr(res.abort or res.raised), text, None
    final = _concrete_state(res.machine)
    if not res.capped:
        steps.append(final)
        if final != (len(Q), ()):
            return 'viol', 'concrete-run-ends-unbalanced', repr(final), text, None
    covered = set()
    for a, b in zip(steps, steps[1:]):
        if (a, b) not in proj:
            return 'viol', 'concrete-step-not-an-abstract-edge', '%r -> %r' % (a, b), text, None
        covered.add((a, b))
    stats = (len(states), len(edges), pairs, len(steps), len(proj) - len(covered))
    return 'ok', None, None, text, stats


def _worker(rank, n, size):
    w = world.World(world.POP_MIXED)
    st = dict(programs=0, ok=0, rejected=0, states=0, edges=0, pairs=0, steps=0,
              uncovered=0, with_define=0, viol={}, sample=None, shapes=set())
    for idx, (sz, prog) in enumerate(gen_k.extended_programs(size)):
        if idx % n != rank:
            continue
        st['programs'] += 1
        status, kind, detail, text, stats = check_program(w, prog)
        if status == 'ok':
            st['ok'] += 1
            st['states'] += stats[0]
            st['edges'] += stats[1]
            st['pairs'] += stats[2]
            st['steps'] += stats[3]
            st['uncovered'] += stats[4]
            st['shapes'].add((stats[0], stats[1]))
            if 'define' in text:
                st['with_define'] += 1
                if st['sample'] is None and sz >= 4:
                    st['sample'] = text
        elif status == 'rejected':
            st['rejected'] += 1
        else:
            cur = st['viol'].get(kind)
            if cur is None:
                st['viol'][kind] = [1, text, detail]
            else:
                cur[0] += 1
                if len(text) < len(cur[1]):
                    cur[1], cur[2] = text, detail
    st['shapes'] = len(st['shapes'])
    return st


def run(tier, seed):
    rep = Report()
    size = 5 if tier == 'quick' else 6
    res = par.run(_worker, (size,))
    viol = {}
    for r in res:
        for kind, (cnt, text, detail) in r['viol'].items():
            cur = viol.get(kind)
            if cur is None:
                viol[kind] = [cnt, text, detail]
            else:
                cur[0] += cnt
                if len(text) < len(cur[1]):
                    cur[1], cur[2] = text, detail
    for kind, (cnt, text, detail) in sorted(viol.items()):
        rep.violation(kind, '%s (%d programs), e.g. `%s`: %s' % (kind, cnt, text, detail),
                      {'script': text, 'detail': detail, 'programs_with_this_signature': cnt})
    tot = lambda k: sum(r[k] for r in res)
    rep.coverage = {
        'states': tot('states'),
        'transitions': tot('edges'),
        'traces_validated_against_impl': tot('ok'),
        'evaluations': tot('programs'),
        'distinct_nontrivial': max(r['shapes'] for r in res),
        'rule': 'every control skeleton with <=%d statement nodes (routine definition in every statement '
                'position, count/range/while/light-iteration/forever loops, break, return); states/transitions = '
                'abstract (pc, frame stack) states and edges of the loaded images summed over programs; every '
                'program is also run concretely and each concrete step must be an abstract edge; '
                'distinct_nontrivial = distinct (states, edges) image shapes seen by one worker' % size,
        'exhaustive': True,
        'programs': tot('programs'),
        'programs_rejected_by_compiler': tot('rejected'),
        'programs_with_a_routine': tot('with_define'),
        'product_state_set_pairs': tot('pairs'),
        'concrete_steps_validated': tot('steps'),
        'abstract_edges_no_concrete_run_covered': tot('uncovered'),
        'marker_path_depth': 12,
        'recursion_cut': pda.MAX_CALLS,
        'samples': [r['sample'] for r in res if r['sample']][:4] or ['(none)'],
    }
    rep.assumptions = ['abstract image machine mirrors Machine._jump/_jsr/_return/_end/_loop/_end_loop; '
                       'the concrete conformance run binds it to the real VM']
    return rep


def replay(path):
    import json
    v = json.load(open(path))
    text = v['witness']['script']
    print('script:', text)
    print('recorded:', v['sig'], v['witness']['detail'])
    w = world.World(world.POP_MIXED)
    res = w.run_script(text)
    print('run now: accepted=%r abort=%r trace=%r' % (res.accepted, res.abort, res.trace))
    return False
