"""C11 — time-of-day patterns match exactly what they denote; `or` means OR.

Shape E (bounded-exhaustive input enumeration against a reference predicate)
plus shape B (use histories):

 A. every string of length <= 6 over {0-9,*,:} is compiled as
    `time at <s> wait` by the real parser, run on the real VM with a recording
    clock, and also fed to TimePattern.from_string.  Reference: a five-line
    predicate over (hour, minute).
 B. all ordered pairs (thorough: triples) over a reduced pattern set joined
    by `or`: captured match-set == union of reference sets.
 C. all sequences of <= 3 uses over {literal, macro} x {alone, or another} x
    {plain, inside repeat 2}: every captured set equals the reference for that
    occurrence, and the program listing is unchanged by the run.
"""
import itertools
import re

from .. import par, world
from ..cli import Report

from bardolph.lib.time_pattern import TimePattern
from bardolph.parser.parse import Parser
from bardolph.vm.vm_codes import OpCode

ALPHA = '0123456789*:'
_H = r'(\*|\*\d|\d\*|\d|\d\d)'
_M = r'(\d\d|\d\*|\*\d|\*)'
_SHAPE = re.compile('^' + _H + ':' + _M + '$')
ALL_TIMES = [(h, m) for h in range(24) for m in range(60)]


def _field_match(value, pat, width2_only):
    if pat == '*':
        return True
    if len(pat) == 1:              # single-digit hour
        return value == int(pat)
    txt = '%02d' % value
    return all(p in ('*', c) for p, c in zip(pat, txt))


def ref_set(s):
    """None if s is not of the documented shape, else the set of (h, m)."""
    mo = _SHAPE.match(s)
    if mo is None:
        return None
    hp, mp_ = mo.groups()
    hs = [h for h in range(24) if _field_match(h, hp, False)]
    ms = [m for m in range(60) if _field_match(m, mp_, True)]
    return frozenset((h, m) for h in hs for m in ms)


def nth_string(i):
    """i-th string in length-then-lexicographic order over ALPHA."""
    length, block = 1, len(ALPHA)
    while i >= block:
        i -= block
        length += 1
        block *= len(ALPHA)
    out = []
    for _ in range(length):
        out.append(ALPHA[i % len(ALPHA)])
        i //= len(ALPHA)
    return ''.join(reversed(out))


def total_strings(maxlen):
    return sum(len(ALPHA) ** k for k in range(1, maxlen + 1))


def _program_listing(program, with_sets=True):
    out = []
    for inst in program:
        p1 = inst.param1
        if inst.op_code is OpCode.TIME_PATTERN:
            try:
                p1 = ('pattern', world.match_set(p1) if with_sets else None)
            except Exception as ex:       # the pattern object itself is broken (e.g. it contains itself)
                p1 = ('pattern', 'match() raises %s' % type(ex).__name__)
        out.append((inst.op_code, repr(inst.param0), p1 if isinstance(p1, tuple) else repr(p1)))
    return out


def run_time_script(w, text, expect_patterns=None):
    """-> (accepted, [match sets captured], abort, listing_changed, raised).

    listing_changed: the compiled program differs after the run.  With
    expect_patterns (the reference sets of the program's pattern operands in
    order) the pattern operands are compared with those after the run, which
    saves recomputing their match sets before it.
    """
    w.reset()
    parser = Parser()
    try:
        ok = parser.parse(text)
    except Exception as ex:
        return None, [], None, False, '%s: %s' % (type(ex).__name__, ex)
    if not ok:
        if 'Line ' not in parser.get_errors():
            return False, [], None, False, 'rejected without a line-numbered message'
        return False, [], None, False, None
    program = parser.get_program()
    before = _program_listing(program, expect_patterns is None)
    res = w.run_program(program, cap=2000)
    after = _program_listing(program)
    if expect_patterns is not None:
        got = [x[2][1] for x in after if x[0] is OpCode.TIME_PATTERN]
        changed = got != list(expect_patterns) or \
            [x for x in before if x[0] is not OpCode.TIME_PATTERN] != \
            [x for x in after if x[0] is not OpCode.TIME_PATTERN]
    else:
        changed = before != after
    sets = [e[1] for e in res.trace if e[0] == 'wait_until']
    others = [e for e in res.trace if e[0] == 'wait']
    abort = res.abort or res.raised or (('unexpected wait', others) if others else None)
    return True, sets, abort, changed, None


# ---------------------------------------------------------------- part A
def _part_a(rank, n, maxlen):
    w = world.World(world.POP_ONE)
    total = total_strings(maxlen)
    st = dict(strings=0, wellformed=0, satisfiable=0, accepted=0, table_cells=0,
              distinct_sets=set(), viol=[])
    for i in range(rank, total, n):
        s = nth_string(i)
        ref = ref_set(s)
        st['strings'] += 1
        text = 'time at %s wait' % s
        acc, sets, abort, changed, raised = run_time_script(w, text)
        # from_string directly
        try:
            fs = TimePattern.from_string(s)
            fs = world.match_set(fs) if fs is not None else frozenset()
        except Exception as ex:
            fs = None
            st['viol'].append(('from-string-raises', s, repr(ex)))
        if raised is not None:
            st['viol'].append(('compile-raises', s, raised))
            continue
        if ref is None or len(ref) == 0:
            if ref is not None:
                st['wellformed'] += 1
            if acc:
                kind = 'accepted-malformed' if ref is None else 'accepted-unsatisfiable'
                st['viol'].append((kind, s, 'matches %d times' % (len(sets[0]) if sets else -1)))
            if fs:
                st['viol'].append(('from-string-matches-malformed', s, len(fs)))
            continue
        st['wellformed'] += 1
        st['satisfiable'] += 1
        if not acc:
            if s != '*:*':
                st['viol'].append(('rejected-valid', s, ''))
            continue
        st['accepted'] += 1
        if abort or changed or len(sets) != 1:
            st['viol'].append(('run-problem', s, repr((abort, changed, len(sets)))))
            continue
        st['table_cells'] += 1440
        st['distinct_sets'].add(sets[0])
        if sets[0] != ref:
            st['viol'].append((_classify_set(s, ref, sets[0]), s, _diff(ref, sets[0])))
        if fs is not None and fs != ref:
            st['viol'].append(('from-string-' + _classify_set(s, ref, fs), s, _diff(ref, fs)))
    st['distinct_sets'] = len(st['distinct_sets'])
    return st


def _classify_set(s, ref, got):
    missing, extra = ref - got, got - ref
    if not extra and missing and all(m == 59 for _, m in missing) and \
            missing == frozenset(t for t in ref if t[1] == 59):
        return 'matchset-misses-exactly-minute-59'
    if not missing:
        return 'matchset-extra'
    if not extra:
        return 'matchset-missing'
    return 'matchset-mismatch'


def _diff(ref, got):
    return {'missing': sorted(ref - got)[:6], 'n_missing': len(ref - got),
            'extra': sorted(got - ref)[:6], 'n_extra': len(got - ref)}


# ---------------------------------------------------------------- part B
def reduced_patterns(big):
    if big:
        digs = '01259'
        hs = ['*'] + ['*' + d for d in digs] + [d + '*' for d in '012'] + list(digs) + \
             [a + b for a in digs for b in digs]
        ms = ['*'] + ['*' + d for d in digs] + [d + '*' for d in '0125'] + \
             [a + b for a in '0125' for b in digs]
    else:
        hs = ['*', '*5', '*9', '0*', '1*', '2*', '5', '9', '05', '12', '19', '23']
        ms = ['*', '*0', '*9', '0*', '5*', '00', '30', '59', '09']
    out = []
    for h in hs:
        for m in ms:
            s = h + ':' + m
            r = ref_set(s)
            if r and s != '*:*':
                out.append(s)
    return out


def tiny_patterns():
    """Few patterns that share hour texts and minute texts: for lists of three and four alternatives."""
    return [h + ':' + m for h in ('8', '9', '1*') for m in ('00', '30', '*5')]


def _part_b(rank, n, pats, arity):
    w = world.World(world.POP_ONE)
    refs = {p: ref_set(p) for p in pats}
    st = dict(lists=0, distinct_sets=set(), viol=[])
    for i, combo in enumerate(itertools.product(pats, repeat=arity)):
        if i % n != rank:
            continue
        st['lists'] += 1
        text = 'time at ' + ' or '.join(combo) + ' wait'
        acc, sets, abort, changed, raised = run_time_script(w, text)
        want = frozenset().union(*(refs[p] for p in combo))
        if raised or not acc or abort or changed or len(sets) != 1:
            st['viol'].append(('or-run-problem', text, repr((raised, acc, abort, changed))))
            continue
        st['distinct_sets'].add(sets[0])
        if sets[0] != want:
            kind = 'or-' + _classify_set(text, want, sets[0])
            cross = frozenset((h, m) for h in {t[0] for t in want} for m in {t[1] for t in want})
            if sets[0] == cross:
                kind = 'or-is-cross-product-of-fields'
            st['viol'].append((kind, text, _diff(want, sets[0])))
    st['distinct_sets'] = len(st['distinct_sets'])
    return st


# ---------------------------------------------------------------- part C
PA, PB = '8:00', '9:3*'
_OPER = {'litA': PA, 'macA': 'ma', 'litB': PB, 'macB': 'mb'}
_REF = {'litA': ref_set(PA), 'macA': ref_set(PA), 'litB': ref_set(PB), 'macB': ref_set(PB)}


def uses():
    out = []
    for first in _OPER:
        for second in (None,) + tuple(_OPER):
            for loop in (False, True):
                out.append((first, second, loop))
    return out


def render_history(hist):
    lines = ['define ma %s' % PA, 'define mb %s' % PB]
    want = []
    operands = []
    for first, second, loop in hist:
        stmt = 'time at ' + _OPER[first]
        exp = _REF[first]
        operands.append(_REF[first])
        if second is not None:
            stmt += ' or ' + _OPER[second]
            exp = exp | _REF[second]
            operands.append(_REF[second])
        stmt += ' wait'
        if loop:
            stmt = 'repeat 2 begin %s end' % stmt
            want += [exp, exp]
        else:
            want.append(exp)
        lines.append(stmt)
    return '\n'.join(lines), want, operands


def _part_c(rank, n, depth):
    w = world.World(world.POP_ONE)
    us = uses()
    st = dict(histories=0, states=set(), transitions=0, viol=[])
    idx = 0
    for d in range(1, depth + 1):
        for hist in itertools.product(us, repeat=d):
            idx += 1
            if idx % n != rank:
                continue
            st['histories'] += 1
            st['transitions'] += d
            text, want, operands = render_history(hist)
            acc, sets, abort, changed, raised = run_time_script(w, text, operands)
            if raised or not acc or abort:
                st['viol'].append(('history-run-problem', text, repr((raised, acc, abort))))
                continue
            st['states'].add(tuple(sets))
            if changed:
                st['viol'].append(('run-mutates-program-patterns', text, ''))
            if sets != want:
                bad = next((k for k, (a, b) in enumerate(zip(sets, want)) if a != b), None)
                # did the same occurrence text evaluate right when it stood alone?
                st['viol'].append(('history-dependent-or-wrong-set', text,
                                   {'event': bad, 'n_events': (len(sets), len(want)),
                                    'diff': _diff(want[bad], sets[bad]) if bad is not None else None}))
    st['states'] = len(st['states'])
    return st


# ---------------------------------------------------------------- driver
def run(tier, seed):
    rep = Report()
    maxlen = 6 if tier == "thorough" else 5
    a = par.run(_part_a, (maxlen,))
    big_pairs = tier == 'thorough'
    pats = reduced_patterns(False)
    b2 = par.run(_part_b, (reduced_patterns(True) if big_pairs else pats, 2))
    b3 = par.run(_part_b, (pats, 3)) if tier == 'thorough' else []
    b3 += par.run(_part_b, (tiny_patterns(), 3)) + par.run(_part_b, (tiny_patterns(), 4))
    c = par.run(_part_c, (3 if tier == 'thorough' else 2,))

    viol = []
    for r in a + b2 + b3 + c:
        viol += r['viol']
    # smallest witness first per kind
    viol.sort(key=lambda v: (v[0], len(v[1]), v[1]))
    for kind, case, detail in viol:
        rep.violation(kind, '%s: %r %s' % (kind, case, detail),
                      {'kind': kind, 'script_or_pattern': case, 'detail': detail})

    strings = sum(r['strings'] for r in a)
    accepted = sum(r['accepted'] for r in a)
    lists = sum(r['lists'] for r in b2 + b3)
    hist = sum(r['histories'] for r in c)
    rep.coverage = {
        'states': sum(r['table_cells'] for r in a) + sum(r['states'] for r in c),
        'transitions': strings + lists + sum(r['transitions'] for r in c),
        'traces_validated_against_impl': strings + lists + hist,
        'evaluations': strings + lists + hist,
        'distinct_nontrivial': max(r['distinct_sets'] for r in a) if a else 0,
        'rule': 'A: every string of length<=%d over "%s" compiled as `time at <s> wait` and run; '
                'states = (pattern,minute) table cells compared with the reference predicate. '
                'B: every ordered %s over the reduced pattern set joined by `or`, and every ordered triple and '
                'quadruple over nine patterns that share hour and minute texts. '
                'C: every history of <=3 (quick: 2) uses over %d use kinds. distinct_nontrivial = most '
                'distinct match-sets seen by one worker (lower bound).' % (
                    maxlen, ALPHA, 'pair and triple' if b3 else 'pair', len(uses())),
        'exhaustive': True,
        'strings_enumerated': strings,
        'wellformed': sum(r['wellformed'] for r in a),
        'satisfiable': sum(r['satisfiable'] for r in a),
        'accepted_and_table_checked': accepted,
        'or_lists': lists,
        'or_pattern_set_size': len(reduced_patterns(True) if big_pairs else pats),
        'use_histories': hist,
        'samples': ['time at 2*:*5 wait', 'time at *:15 or 1*:4* wait',
                    render_history([('macA', 'litB', True), ('litA', None, False)])[0]],
    }
    rep.assumptions = ['recording clock bound to i_lib.Clock captures the pattern object handed to wait_until',
                       '`*:*` may be accepted or rejected (the manual calls it meaningless)']
    return rep


def replay(path):
    import json
    v = json.load(open(path))
    wit = v['witness']
    case = wit['script_or_pattern']
    w = world.World(world.POP_ONE)
    if ' ' not in case:
        st = _replay_string(w, case)
        return st
    acc, sets, abort, changed, raised = run_time_script(w, case)
    print('script:', case)
    print('accepted=%r sets=%r abort=%r changed=%r raised=%r' % (
        acc, [sorted(s)[:8] for s in sets], abort, changed, raised))
    return False if v['sig'] else True


def _replay_string(w, s):
    ref = ref_set(s)
    acc, sets, abort, changed, raised = run_time_script(w, 'time at %s wait' % s)
    print('pattern %r: reference %s, accepted=%r, captured=%s raised=%r' % (
        s, None if ref is None else len(ref), acc, [len(x) for x in sets], raised))
    if raised:
        return False
    if ref is None or not ref:
        return not acc
    return bool(acc) and len(sets) == 1 and sets[0] == ref
