"""Shared driver for checks that push enumerated programs (ASTs) through the
real compiler+VM and compare the event trace with the reference interpreter."""
import hashlib
import importlib

from .. import par, simnet, world
from ..lang import harness


def default_classify(o):
    st = o.status
    if st in ('abort', 'crash'):
        d = o.detail
        if isinstance(d, tuple):
            return '%s:%s@%s' % (st, d[1], d[3])
        return '%s:%s' % (st, str(d).split(':')[0])
    if st == 'mismatch':
        i, want, got = o.detail
        if want and got and want[0] == got[0] == 'dev' and want[2] == got[2]:
            if want[1] == got[1]:
                return 'mismatch:%s-arguments' % want[2]
            return 'mismatch:%s-wrong-light' % want[2]
        return 'mismatch:%s-vs-%s' % ((want or ('end',))[0], (got or ('end',))[0])
    return st


def worker(rank, n, modname, funcname, args, pop, cap, classify_name):
    mod = importlib.import_module(modname)
    gen = getattr(mod, funcname)(*args)
    classify = default_classify
    if classify_name:
        cm, cf = classify_name.rsplit('.', 1)
        classify = getattr(importlib.import_module(cm), cf)
    w = world.World(pop)
    st = dict(programs=0, ok=0, undefined=0, refcap=0, steps=0, events=0,
              traces=set(), viol={}, sample=None)
    for idx, item in enumerate(gen):
        if idx % n != rank:
            continue
        prog = item[1] if (isinstance(item, tuple) and len(item) == 2 and isinstance(item[0], int)) else item
        st['programs'] += 1
        o = harness.run_ast(w, prog, cap=cap)
        if o.status == 'ok':
            st['ok'] += 1
            st['steps'] += o.steps
            st['events'] += len(o.trace)
            st['traces'].add(hashlib.md5(repr(o.trace).encode()).digest()[:8])
            if st['sample'] is None and len(o.trace) > 4:
                st['sample'] = o.text
        elif o.status in ('undefined', 'refcap'):
            st[o.status] += 1
        else:
            sig = classify(o)
            cur = st['viol'].get(sig)
            if cur is None:
                st['viol'][sig] = [1, o.text, repr(o.detail)]
            else:
                cur[0] += 1
                if len(o.text) < len(cur[1]):
                    cur[1], cur[2] = o.text, repr(o.detail)
    st['traces'] = list(st['traces'])
    return st


class Accum:
    def __init__(self):
        self.tot = dict(programs=0, ok=0, undefined=0, refcap=0, steps=0, events=0)
        self.traces = set()
        self.viol = {}
        self.per = {}
        self.per_ok = {}
        self.samples = []

    def run(self, key, modname, funcname, args, pop, cap=5000, classify=None):
        res = par.run(worker, (modname, funcname, tuple(args), tuple(pop), cap, classify))
        self.per[key] = sum(r['programs'] for r in res)
        self.per_ok[key] = sum(r['ok'] for r in res)
        popname = 'pop=' + ','.join('%s/%s/%s/%s' % (d.label, d.group, d.location, d.kind) for d in pop)
        for r in res:
            for k in self.tot:
                self.tot[k] += r[k]
            self.traces.update(r['traces'])
            if r['sample'] and not any(s.startswith(key + ':') for s in self.samples) and len(self.samples) < 8:
                self.samples.append('%s: %s' % (key, r['sample']))
            for sig, (cnt, text, detail) in r['viol'].items():
                cur = self.viol.get(sig)
                if cur is None:
                    self.viol[sig] = [cnt, text, detail, key, popname, pop]
                else:
                    cur[0] += cnt
                    if len(text) < len(cur[1]):
                        cur[1:] = [text, detail, key, popname, pop]

    def report(self, rep, rule, extra=None):
        for key, n in self.per.items():
            assert n > 0, 'harness: part %s enumerated nothing' % key
        for sig, (cnt, text, detail, key, popname, pop) in sorted(self.viol.items()):
            rep.violation(sig, '%s in %s (%d programs), e.g. `%s` -> %s' % (sig, key, cnt, text, detail),
                          {'script': text, 'population': [list(d) for d in pop], 'detail': detail,
                           'part': key, 'programs_with_this_signature': cnt})
        t = self.tot
        rep.coverage = {
            'states': t['steps'], 'transitions': t['events'],
            'traces_validated_against_impl': t['ok'], 'evaluations': t['programs'],
            'distinct_nontrivial': len(self.traces), 'rule': rule, 'exhaustive': True,
            'programs_per_part': self.per,
            'programs_agreeing_with_reference_per_part': self.per_ok,
            'reference_undefined_skipped': t['undefined'],
            'reference_step_cap_skipped': t['refcap'],
            'samples': self.samples or ['(none)'],
        }
        if extra:
            rep.coverage.update(extra)
        rep.assumptions = list(simnet.ASSUMPTIONS) + [
            'recording clock at i_lib.Clock; reference semantics: DESIGN.md Appendix A (mc/lang/ref.py)']


def replay(path):
    import json
    v = json.load(open(path))
    wit = v['witness']
    pop = tuple(world.Dev(*d) for d in wit['population'])
    w = world.World(pop)
    res = w.run_script(wit['script'], cap=20000)
    print('script:', wit['script'])
    print('population:', wit['population'])
    print('recorded:', v['sig'], wit['detail'])
    print('observed now: accepted=%r errors=%r abort=%r raised=%r' % (res.accepted, res.errors, res.abort, res.raised))
    for e in res.trace[:60]:
        print('   ', e if e[0] != 'wait_until' else ('wait_until', len(e[1])))
    print('(verdict needs the reference trace: rerun the check)')
    return False
