"""C20 — the web front end runs only the manifest's scripts, escaped, once.

Shape B: explicit-state breadth-first search over request histories.  The real
web.front_end (imported over a stub of the Flask API) and the real WebApp over
the real JobControl are driven one request at a time; job threads are replaced
by fake threads whose completion is an explorer event; ScriptJob.from_file is
wrapped to record the file it was asked for.  Manifests: every list of <= 2
(thorough 3) entries over a menu of benign and hostile entries.
"""
import html
import itertools
import json
import os
import re
from collections import deque

from .. import flaskstub, par, world
from ..cli import Report

flaskstub.install()

from bardolph.lib import i_lib, injection, job_control      # noqa: E402
from web import front_end, i_web, web_app                    # noqa: E402

POP = (world.Dev('a', 'g', 'p'), world.Dev('s', 'g', 'p', 'strip', 2))
HOSTILE = '<b>"x"&\'y\'</b>'
ENTRIES = [
    {'file_name': 'a.ls'},
    {'file_name': 'b-c_d.ls'},
    {'file_name': 'noext'},
    {'file_name': 'x&y.ls'},
    {'file_name': '<i>.ls'},
    {'file_name': '../up.ls'},
    {'file_name': '', 'path': 'button', 'title': 'Button'},
    {'file_name': 'a.ls', 'path': 'alpha', 'title': 'First'},
    {'file_name': 'bg.ls', 'run_background': True},
    {'file_name': 'bg2.ls', 'path': 'back', 'run_background': True, 'title': HOSTILE},
    {'file_name': 'c.ls', 'path': 'p&q', 'title': 'T<1>'},
    {'file_name': 'd.ls', 'title': HOSTILE, 'color': HOSTILE, 'background': 'x" onload="alert(1)'},
    {'file_name': 'off-all.ls', 'path': 'lights-off'},
    {'file_name': 'e_f-g.ls'},
]
# paths equal to the fixed routes (/off, /stop-all, /status, ...) are not in the menu: those URLs
# have their own documented meaning and never reach the manifest lookup
META = re.compile(r'[<>"\']|&(?!(amp|lt|gt|quot|#x27|#39);)')


def full(entry):
    e = dict(entry)
    e.setdefault('background', '#222')
    e.setdefault('color', 'Linen')
    return e


class FakeThread:
    registry = None

    def __init__(self, group=None, target=None, name=None, args=(), kwargs=None, daemon=None):
        self.target = target
        self.alive = False

    def start(self):
        self.alive = True
        FakeThread.registry.append(self)

    def is_alive(self):
        return self.alive

    def join(self, timeout=None):
        pass

    def complete(self):
        try:
            self.target()
        finally:
            self.alive = False


class FakeJob(job_control.Job):
    def __init__(self, path, log):
        self.path = path
        self.log = log
        self.stops = 0

    def execute(self):
        self.log.append(('executed', self.path))

    def request_stop(self):
        self.stops += 1
        self.log.append(('stop-delivered', self.path))


class Sys:
    def __init__(self, manifest, workdir):
        self.manifest = [full(e) for e in manifest]
        os.makedirs(os.path.join(workdir, 'web'), exist_ok=True)
        os.makedirs(os.path.join(workdir, 'scripts'), exist_ok=True)
        os.chdir(workdir)
        with open(os.path.join('web', 'm.json'), 'w') as f:
            json.dump(self.manifest, f)
        self.w = world.World(POP, overrides={'manifest_file_name': 'm.json', 'script_path': 'scripts'})
        self.log = []
        self.threads = []
        FakeThread.registry = self.threads
        job_control.threading = type('T', (), {'Thread': FakeThread, 'RLock': __import__('threading').RLock})
        self.jobs = []

        def from_file(fname, log=self.log, jobs=self.jobs):
            log.append(('from_file', fname))
            j = FakeJob(fname, log)
            jobs.append(j)
            return j
        web_app.ScriptJob = type('SJ', (), {'from_file': staticmethod(from_file)})
        self.app = web_app.WebApp()
        injection.bind_instance(self.app).to(i_web.WebApp)
        flaskstub.CALLS.clear()

    def request(self, url):
        routes = front_end.blueprint.routes
        if url in routes:
            return routes[url]()
        m = re.match(r'^/stop/(.+)$', url)
        if m:
            return routes['/stop/<script_path>'](m.group(1))
        return routes['/<script_path>'](url[1:])

    def alive_names(self):
        """names of the jobs whose (fake) thread has been started and has not finished: the harness's own view"""
        out = []
        for t in self.threads:
            owner = getattr(t.target, '__self__', None)
            if t.alive and isinstance(owner, job_control.Agent):
                out.append(owner.name)
        return out

    def names(self):
        jc = self.app._jobs
        cur = jc.get_current()
        return (tuple(a.name for a in jc.get_queued()), cur.name if cur else None,
                tuple(sorted(a.name for a in jc.get_background())),
                tuple(t.alive for t in self.threads))


def entry_path(e):
    p = e.get('path', '')
    if not p:
        p = e['file_name']
        if p.endswith('.ls'):
            p = p[:-3]
    return p


def events_for(manifest):
    paths = []
    for e in manifest:
        p = entry_path(e)
        if p not in paths and '/' not in p and p:
            paths.append(p)
    ev = [('get', p) for p in paths] + [('get', 'not-in-manifest')]
    ev += [('stop', p) for p in paths] + [('stop', 'not-in-manifest')]
    ev += [('stop-current',), ('stop-all',), ('status',), ('capture',), ('index',), ('off',)]
    ev += [('complete', k) for k in range(3)]
    return ev


def apply(s, ev):
    """-> None | (kind, detail)"""
    jc = s.app._jobs
    table = {}
    for e in s.manifest:
        table[entry_path(e)] = e         # later entries with the same path win, as in WebApp
    before = s.names()
    nlog = len(s.log)
    ncalls = len(flaskstub.CALLS)
    alive_before = s.alive_names()
    running_before = {n: html.escape(n) in alive_before for n in table}
    active_before = jc.get_current()
    bg_before = list(jc.get_background())
    raised = None
    kind = ev[0]
    try:
        if kind == 'get':
            s.request('/' + ev[1])
        elif kind == 'stop':
            s.request('/stop/' + ev[1])
        elif kind == 'stop-current':
            s.request('/stop-current')
        elif kind == 'stop-all':
            s.request('/stop-all')
        elif kind == 'status':
            s.request('/status')
        elif kind == 'capture':
            s.request('/capture')
        elif kind == 'index':
            s.request('/')
        elif kind == 'off':
            s.request('/off')
        elif kind == 'complete':
            alive = [t for t in s.threads if t.alive]
            if ev[1] >= len(alive):
                return 'skip'
            alive[ev[1]].complete()
    except Exception as ex:           # noqa: the handler raised: judged below
        raised = '%s: %s' % (type(ex).__name__, ex)
    new = s.log[nlog:]
    opened = [x[1] for x in new if x[0] == 'from_file']
    stops = [x[1] for x in new if x[0] == 'stop-delivered']
    allowed = {os.path.join('scripts', e['file_name']) for e in s.manifest}
    for f in opened:
        if f not in allowed:
            return ('file-outside-manifest-opened', '%r (allowed %r)' % (f, sorted(allowed)))
    after = s.names()
    if kind == 'get':
        p = ev[1]
        e = table.get(p)
        if e is None:
            if opened or after[:3] != before[:3]:
                return ('unlisted-path-starts-something', repr((p, opened)))
        else:
            want_file = os.path.join('scripts', e['file_name'])
            if running_before.get(p):
                if opened:
                    return ('running-script-started-again', repr((p, opened)))
            else:
                if opened != [want_file]:
                    return ('request-does-not-open-the-listed-file', 'path %r: opened %r, manifest lists %r' % (p, opened, want_file))
                name = html.escape(p)
                if e.get('run_background'):
                    if name not in after[2]:
                        return ('background-script-not-spawned', repr((p, after)))
                elif not (after[1] == name or name in after[0]):
                    return ('script-not-queued', repr((p, after)))
        if raised:
            return ('run-request-raises', '%r: %s' % (p, raised))
    elif kind == 'stop':
        p = ev[1]
        name = html.escape(p)
        target = None
        if active_before is not None and active_before.name == name and p in table:
            target = active_before
        else:
            target = next((a for a in bg_before if a.name == name and p in table), None)
        want = [target.job.path] if target is not None else []
        if sorted(stops) != sorted(want):
            return ('stop-not-delivered-to-exactly-the-named-job', 'stop %r: delivered to %r, expected %r' % (p, stops, want))
        if raised:
            return ('stop-request-raises', '%r: %s' % (p, raised))
    elif kind == 'stop-current':
        want = [active_before.job.path] if active_before is not None and active_before.is_running() else []
        if sorted(stops) != sorted(want):
            return ('stop-current-not-delivered-to-exactly-the-current-job', 'delivered %r, expected %r' % (stops, want))
        if raised:
            return ('stop-current-request-raises', raised)
    elif kind == 'stop-all':
        want = ([active_before.job.path] if active_before is not None and active_before.is_running() else []) + \
            [a.job.path for a in bg_before]
        if sorted(stops) != sorted(want):
            return ('stop-all-not-delivered-to-all-jobs', 'delivered %r, expected %r' % (stops, want))
        if after[0]:
            return ('stop-all-leaves-queue', repr(after[0]))
        if raised:
            return ('stop-all-request-raises', raised)
    elif kind in ('status', 'capture', 'index'):
        if raised:
            return ('%s-page-raises' % kind, raised)
        if kind == 'capture' and not os.path.exists(os.path.join('scripts', '__snapshot__.ls')):
            return ('capture-writes-no-file', '')
    # what the controller reports as running is what executes (threads started and not finished)
    alive_after = s.alive_names()
    for n in table:
        name = html.escape(n)
        if bool(jc.is_running(name)) != (name in alive_after):
            return ('controller-misreports-a-running-script', '%r: reported running=%r, thread alive=%r (after %r)' % (
                n, jc.is_running(name), name in alive_after, ev))
    if len(alive_after) != len(set(alive_after)):
        return ('running-script-started-again', 'two live threads for %r after %r' % (
            sorted(x for x in alive_after if alive_after.count(x) > 1), ev))
    # whatever reached a template must be escaped
    for tname, ctx in flaskstub.CALLS[ncalls:]:
        controls = list(ctx.get('scripts', [])) + ([ctx['script']] if ctx.get('script') is not None else [])
        for sc in controls:
            for field in ('file_name', 'path', 'title', 'color', 'background'):
                val = getattr(sc, field)
                if META.search(val):
                    return ('unescaped-string-reaches-template', '%s.%s = %r' % (tname, field, val))
    return None


def static_checks(s):
    """default path/title derivation and escaping of the table built from the manifest"""
    for e in s.manifest:
        p = entry_path(e)
        sc = s.app._scripts.get(p)
        if sc is None:
            return ('manifest-entry-not-registered-under-its-path', repr(p))
        last = [x for x in s.manifest if entry_path(x) == p][-1]
        if e is not last:
            continue
        for field, orig in (('path', p), ('color', e['color']), ('background', e['background']),
                            ('file_name', e['file_name'])):
            if getattr(sc, field) != html.escape(orig):
                return ('field-not-html-escaped', '%s: %r from %r' % (field, getattr(sc, field), orig))
        if e.get('title'):
            if sc.title != html.escape(e['title']):
                return ('field-not-html-escaped', 'title: %r from %r' % (sc.title, e['title']))
        elif not e.get('path') and re.fullmatch(r'[a-z_\-]+(\.ls)?', e['file_name']):
            base = e['file_name'][:-3] if e['file_name'].endswith('.ls') else e['file_name']
            want = ' '.join(wd.capitalize() for wd in base.replace('_', ' ').replace('-', ' ').split(' '))
            if sc.title != want:
                return ('default-title-wrong', '%r -> %r, documented %r' % (e['file_name'], sc.title, want))
    return None


def explore_manifest(manifest, depth, workdir):
    evs = events_for([full(e) for e in manifest])

    def build(hist):
        s = Sys(manifest, workdir)
        bad = None
        for ev in hist:
            r = apply(s, ev)
            if r == 'skip':
                return s, 'skip'
            if r is not None and bad is None:
                bad = r
        return s, bad
    s0, _ = build(())
    bad0 = static_checks(s0)
    viol = []
    if bad0:
        viol.append((bad0[0], bad0[1], ()))
    seen = {s0.names()}
    frontier = deque([()])
    transitions = 0
    while frontier:
        hist = frontier.popleft()
        if len(hist) >= depth:
            continue
        for ev in evs:
            h2 = hist + (ev,)
            s, bad = build(h2)
            if bad == 'skip':
                continue
            transitions += 1
            if bad is not None:
                viol.append((bad[0], bad[1], h2))
                continue
            k = s.names()
            if k not in seen:
                seen.add(k)
                frontier.append(h2)
    return len(seen), transitions, viol


def drain_scenarios(workdir):
    """Start from non-initial states too: long queues.  k requests for listed scripts while one runs, then the
    jobs complete one by one: every request that was answered "Started" is executed, in request order."""
    viol = []
    n = 0
    for k in (3, 17, 40):
        for man in ([ENTRIES[0], ENTRIES[1]], [ENTRIES[0], ENTRIES[8]], [ENTRIES[3]]):
            s = Sys(man, workdir)
            paths = [entry_path(e) for e in s.manifest]
            asked = []
            for i in range(k):
                p = paths[i % len(paths)]
                before = len([x for x in s.log if x[0] == 'from_file'])
                s.request('/' + p)
                if len([x for x in s.log if x[0] == 'from_file']) > before:
                    asked.append(s.log[-1][1])
                n += 1
            for _ in range(3 * k + 5):
                alive = [t for t in s.threads if t.alive]
                if not alive:
                    break
                alive[0].complete()
                n += 1
            executed = [x[1] for x in s.log if x[0] == 'executed']
            if sorted(executed) != sorted(asked):
                viol.append(('accepted-request-never-executed', '%d of %d started scripts ran (manifest %r, %d requests)' % (
                    len(executed), len(asked), [e['file_name'] for e in man], k), (('drain', k),)))
            elif s.app._jobs.has_jobs():
                viol.append(('controller-not-drained', 'has_jobs() after everything completed', (('drain', k),)))
    return n, viol


def manifests(maxlen):
    for n in range(1, maxlen + 1):
        for combo in itertools.product(range(len(ENTRIES)), repeat=n):
            if len(set(combo)) == len(combo):
                yield [ENTRIES[i] for i in combo]


def shipped_manifest(workdir):
    """The manifest that ships with the server (web/manifest.json of the tree under test): every entry is
    registered; every listed path requested once opens exactly its file; and the documented Capture -> Retrieve
    pair works: the file the capture handler writes is the file the `retrieve` path runs."""
    from .. import repo as _repo
    path = os.path.join(os.environ.get('BARDOLPH_REPO', '/repo'), 'web', 'manifest.json')
    manifest = json.load(open(path))
    s = Sys(manifest, workdir)
    n = 0
    bad = static_checks(s)
    if bad:
        return n, [(bad[0], bad[1], [('shipped-manifest',)])]
    viol = []
    before = set(os.listdir('scripts'))
    r = apply(s, ('capture',))
    n += 1
    if r not in (None, 'skip'):
        viol.append((r[0], r[1], [('capture',)]))
    written = sorted(set(os.listdir('scripts')) - before)
    nlog = len(s.log)
    try:
        s.request('/retrieve')
    except Exception as ex:
        viol.append(('run-request-raises', 'retrieve: %r' % (ex,), [('capture',), ('get', 'retrieve')]))
    n += 1
    opened = [os.path.basename(x[1]) for x in s.log[nlog:] if x[0] == 'from_file']
    if len(written) != 1 or opened != written:
        viol.append(('retrieve-does-not-run-what-capture-wrote',
                     'capture wrote %r, the retrieve path opened %r' % (written, opened),
                     [('capture',), ('get', 'retrieve')]))
    for e in s.manifest:
        pth = entry_path(e)
        if not e['file_name'] and ('/' + pth) not in front_end.blueprint.routes:
            viol.append(('button-without-a-file-is-not-a-fixed-route', 'path %r, title %r' % (pth, e.get('title')),
                         [('shipped-manifest',)]))
        if ('/' + pth) in front_end.blueprint.routes and pth not in ('capture',):
            # the buttons with a meaning of their own: pressed while a script runs, they answer without an error
            s3 = Sys(manifest, workdir)
            first = next(entry_path(x) for x in s3.manifest if x['file_name'] and not x.get('run_background'))
            apply(s3, ('get', first))
            kind3 = {'stop-all': ('stop-all',), 'stop-current': ('stop-current',), 'off': ('off',),
                     'status': ('status',)}.get(pth)
            if kind3 is not None:
                r = apply(s3, kind3)
                n += 1
                if r not in (None, 'skip'):
                    viol.append((r[0], r[1], [('shipped-manifest',), ('get', first), kind3]))
    for e in s.manifest:
        pth = entry_path(e)
        if not pth or '/' in pth or pth == 'retrieve' or ('/' + pth) in front_end.blueprint.routes:
            continue            # the fixed routes (/capture, /off, /stop-all, ...) have their own documented meaning
        s2 = Sys(manifest, workdir)
        r = apply(s2, ('get', pth))
        n += 1
        if r not in (None, 'skip'):
            viol.append((r[0], r[1], [('shipped-manifest',), ('get', pth)]))
    return n, viol


def _worker(rank, n, maxlen, depth):
    workdir = '/var/tmp/c20_%d' % os.getpid()
    os.makedirs(workdir, exist_ok=True)
    cwd = os.getcwd()
    st = dict(manifests=0, states=0, transitions=0, viol={})
    try:
        if rank == 0:
            nd, dviol = drain_scenarios(workdir)
            st['transitions'] += nd
            for kind, detail, hist in dviol:
                st['viol'][kind] = [1, detail, [ENTRIES[0]], hist, (9, 9)]
        if rank == 1 % n:
            nd, sviol = shipped_manifest(workdir)
            st['transitions'] += nd
            assert nd > 5
            for kind, detail, hist in sviol:
                st['viol'].setdefault(kind, [1, detail, [{'file_name': 'web/manifest.json of the tree'}], hist, (9, 9)])
        for i, man in enumerate(manifests(maxlen)):
            if i % n != rank:
                continue
            st['manifests'] += 1
            ns, nt, viol = explore_manifest(man, depth, workdir)
            st['states'] += ns
            st['transitions'] += nt
            for kind, detail, hist in viol:
                cur = st['viol'].get(kind)
                size = (len(man), len(hist))
                if cur is None or size < cur[4]:
                    st['viol'][kind] = [(cur[0] if cur else 0), detail, man, hist, size]
                st['viol'][kind][0] += 1
    finally:
        os.chdir(cwd)
        import shutil
        shutil.rmtree(workdir, ignore_errors=True)
    return st


def run(tier, seed):
    rep = Report()
    maxlen, depth = (2, 4) if tier == 'quick' else (3, 5)
    res = par.run(_worker, (maxlen, depth))
    viol = {}
    for r in res:
        for kind, (cnt, detail, man, hist, size) in r['viol'].items():
            cur = viol.get(kind)
            if cur is None or size < cur[4]:
                viol[kind] = [(cur[0] if cur else 0) + cnt, detail, man, hist, size]
            else:
                cur[0] += cnt
    for kind, (cnt, detail, man, hist, size) in sorted(viol.items()):
        rep.violation(kind, '%s (%d transitions): manifest %r, requests %r: %s' % (kind, cnt, man, list(hist), detail),
                      {'manifest': man, 'history': [list(h) for h in hist], 'detail': detail, 'transitions': cnt})
    tot = lambda k: sum(r[k] for r in res)
    rep.coverage = {
        'states': tot('states'), 'transitions': tot('transitions'),
        'traces_validated_against_impl': tot('transitions'), 'evaluations': tot('transitions'),
        'distinct_nontrivial': tot('states'),
        'rule': 'for every manifest (every list of <=%d distinct entries over a %d-entry menu incl. hostile strings, path '
                'separators, background flags, duplicate paths) BFS over request histories of <=%d events (GET listed/unlisted '
                'path, /stop/<p>, /stop-current, /stop-all, /status, /capture, /, /off, completion of a running job) with canonical '
                'state (queue names, active, background, live threads); each transition rebuilds the real WebApp and replays' % (
                    maxlen, len(ENTRIES), depth),
        'exhaustive': True,
        'manifests': tot('manifests'),
        'samples': [{'manifest': [ENTRIES[3], ENTRIES[8]], 'requests': [['get', 'x&y'], ['get', 'bg'], ['stop-all']]}],
    }
    rep.assumptions = ['Flask/Jinja2 are not installed: a stub Blueprint/request and a mini template interpreter resolve every variable '
                       'reference of the real template files against the context (mc/flaskstub.py)',
                       'job threads are fake threads completed by explorer events; ScriptJob.from_file is wrapped to record the file',
                       'whether /stop-current, /stop-all and /off render a page when the manifest has no entry of that name is not judged']
    return rep


def replay(path):
    v = json.load(open(path))
    wit = v['witness']
    workdir = '/var/tmp/c20_replay_%d' % os.getpid()
    os.makedirs(workdir, exist_ok=True)
    cwd = os.getcwd()
    try:
        s = Sys(wit['manifest'], workdir)
        print('manifest:', wit['manifest'])
        print('static:', static_checks(s))
        bad = None
        for ev in wit['history']:
            r = apply(s, tuple(ev))
            print('  ', ev, '->', r, s.names()[:3])
            bad = bad or (r if r != 'skip' else None)
        return bad is None and static_checks(s) is None
    finally:
        os.chdir(cwd)
        import shutil
        shutil.rmtree(workdir, ignore_errors=True)
