"""C02 — expressions: precedence, associativity, arithmetic, built-ins, random.

 A1  every typed tree with <= 2 operators (14 operators), literal leaves, in
     three renderings (minimal parentheses, fully parenthesised, no white
     space) and nine value positions;
 A2  the same trees with each leaf replaced by every operand kind (variable,
     macro, register, user call, built-in call);
 B   every typed tree with 3 operators (thorough: 4), plus every single leading-minus and logical-zero variant, in the
     three renderings;
 C   built-in functions on argument grids against their prose definitions;
 D   [random a b]: the random source is replaced by one whose primitive
     answers are choice points; over ALL answer sequences the result set must
     be exactly {a..b}  (shape S).
Oracle for A/B: Python evaluation of the tree by the reference interpreter.
"""
import hashlib
import math

from .. import par, world
from ..cli import Report
from ..explore import choice
from ..lang import gen_expr as G
from ..lang import harness, render

N = lambda v: ('num', v)
V = lambda n: ('var', n)


def positions(e):
    ident = ('define', 'id', ('p',), (('return', V('p')),))
    return [
        ('print', (('print', e),)),
        ('register', (('setreg', 'duration', e), ('print', ('reg', 'duration')))),
        ('assign', (('assign', 'v', e), ('print', V('v')))),
        ('argument', (ident, ('print', ('call', 'id', (e,))))),
        ('if', (('if', ((e, (('print', N(1)),)),), (('print', N(0)),)),)),
        ('while', (('repeat', ('while', e), (('print', N(1)), ('break',))),)),
        ('count', (('repeat', ('count', e), (('print', N(1)),)),)),
        ('bound', (('repeat', ('range', 'i', e, e), (('print', V('i')),)),)),
        ('return', (('define', 'r', (), (('return', e),)), ('print', ('call', 'r', ())))),
    ]


STYLES = ('min', 'full', 'compact')


def texts(prog):
    tmin = render.program_tokens(prog, 'min')
    return {'min': ' '.join(tmin),
            'full': ' '.join(render.program_tokens(prog, 'full')),
            'compact': G.compact(tmin)}


REGS = ('hue', 'saturation', 'brightness', 'kelvin')
BFN = ('round', 'floor', 'ceil', 'trunc')


def leaf_kind_variants(tree):
    """(prelude, tree) with leaves replaced by other operand kinds."""
    slots = G.leaf_slots(tree)
    vals = []
    t = tree
    for path in slots:
        x = tree
        for p in path:
            x = x[p]
        vals.append(x[1])
    out = []
    kinds = ('var', 'mac', 'reg', 'ucall', 'bcall')

    def build(assign):
        pre, t2, need_id = [], tree, False
        for i, (path, kind) in enumerate(zip(slots, assign)):
            v = vals[i]
            if kind == 'lit':
                continue
            if kind == 'var':
                pre.append(('assign', 'a%d' % i, N(v)))
                leaf = V('a%d' % i)
            elif kind == 'mac':
                pre.append(('defmacro', 'm%d' % i, N(v)))
                leaf = ('mac', 'm%d' % i)
            elif kind == 'reg':
                pre.append(('setreg', REGS[i], N(v)))
                leaf = ('reg', REGS[i])
            elif kind == 'ucall':
                need_id = True
                leaf = ('call', 'id', (N(v),))
            else:
                leaf = ('call', BFN[i % 4], (N(v),))
            t2 = G.replace(t2, path, leaf)
        if need_id:
            pre.insert(0, ('define', 'id', ('p',), (('return', V('p')),)))
        return tuple(pre), t2
    for k in kinds:
        out.append(build([k] * len(slots)))
        for i in range(len(slots)):
            out.append(build(['lit'] * i + [k] + ['lit'] * (len(slots) - i - 1)))
    return out


def _cases(part, tier):
    """yields (label, program AST)"""
    if part == 'A1':
        for n in (0, 1, 2):
            for t in G.trees(n):
                for z in [t] + G.with_zero(t):
                    for pname, prog in positions(z):
                        yield 'A1/' + pname, prog
    elif part == 'A2':
        for n in (1, 2):
            for t in G.trees(n):
                for pre, t2 in leaf_kind_variants(t):
                    yield 'A2', pre + (('print', t2),)
    elif part == 'B3':
        for t in G.trees(3):
            for z in [t] + G.with_minus(t) + G.with_zero(t):
                yield 'B3', (('print', z),)
        for n in (1, 2):
            for t in G.trees(n):
                for z in G.with_minus(t):
                    yield 'B%d-minus' % n, (('print', z),)
    elif part == 'E':
        # user names that coincide with the names the built-ins use internally for their parameters must not matter
        names = ('x', 'theta', 'min', 'max', 'y', 'n', 'value', 'a', 'b', 'angle')
        calls = [('round', (N(2.6),)), ('floor', (N(2.6),)), ('ceil', (N(2.2),)), ('trunc', (N(2.6),)), ('sqrt', (N(16),)),
                 ('sin', (N(30),)), ('cos', (N(60),)), ('tan', (N(45),)), ('asin', (N(0.5),)), ('acos', (N(0.5),)),
                 ('atan', (N(1),)), ('cycle', (N(365),))]
        for nm in names:
            binders = [
                lambda body, nm=nm: (('defmacro', nm, N(77)),) + body,
                lambda body, nm=nm: (('assign', nm, N(77)),) + body,
                lambda body, nm=nm: (('define', 'outer', (nm,), body), ('callst', 'outer', (N(77),), False)),
                lambda body, nm=nm: (('define', 'outer', (), (('assign', nm, N(77)),) + body), ('callst', 'outer', (), False)),
                lambda body, nm=nm: (('repeat', ('range', nm, N(77), N(77)), body),),
            ]
            for fn, args in calls:
                for bind in binders:
                    yield 'E', bind((('print', ('call', fn, args)), ('print', ('bin', '+', ('call', fn, args), N(1)))))
    elif part == 'B4':
        for t in G.trees(4):          # all 14 operators
            yield 'B4', (('print', t),)


def _tree_worker(rank, n, part, tier):
    w = world.World(world.POP_ONE)
    st = dict(cases=0, ok=0, undefined=0, values=set(), viol={}, steps=0)
    for idx, (label, prog) in enumerate(_cases(part, tier)):
        if idx % n != rank:
            continue
        tx = texts(prog)
        for style in STYLES:
            st['cases'] += 1
            o = harness.run_ast(w, prog, cap=60000, text=tx[style], ref_cap=1500)
            if o.status == 'ok':
                st['ok'] += 1
                st['steps'] += o.steps
                st['values'].add(hashlib.md5(repr(o.trace).encode()).digest()[:6])
            elif o.status in ('undefined', 'refcap'):
                st['undefined'] += 1
                break
            else:
                kind = '%s:%s' % (o.status, style if o.status == 'rejected' else
                                  ('compact' if style == 'compact' else 'any-layout'))
                if o.status == 'mismatch':
                    kind = 'wrong-value:' + label.split('/')[0][:2] + ':' + (
                        'compact' if style == 'compact' and 'min' not in st.get('_bad', ()) else 'any-layout')
                cur = st['viol'].get(kind)
                if cur is None:
                    st['viol'][kind] = [1, o.text, repr(o.detail)]
                else:
                    cur[0] += 1
                    if len(o.text) < len(cur[1]):
                        cur[1], cur[2] = o.text, repr(o.detail)
    st['values'] = list(st['values'])
    return st


# ------------------------------------------------------------------ built-ins
def _grid(lo, hi, step):
    k = int(round((hi - lo) / step))
    return [lo + i * step for i in range(k + 1)]


def _is_int(r):
    return isinstance(r, int) and not isinstance(r, bool)


def _oracles():
    def close(a, b):
        return isinstance(a, (int, float)) and math.isclose(a, b, rel_tol=1e-9, abs_tol=1e-9)
    ang = _grid(-720, 720, 0.5)
    unit = [i / 64 for i in range(-64, 65)]
    return {
        'round': (ang, lambda x, r: _is_int(r) and abs(r - x) <= 0.5),
        'floor': (ang, lambda x, r: _is_int(r) and r <= x < r + 1),
        'ceil': ([x for x in ang if x != -1.5], lambda x, r: _is_int(r) and r - 1 < x <= r),
        'trunc': ([x for x in ang if x != -1.5],
                  lambda x, r: _is_int(r) and abs(r) <= abs(x) < abs(r) + 1 and (r == 0 or (r > 0) == (x > 0))),
        'sqrt': ([i * i / 4 for i in range(0, 2001)] + [i / 7 for i in range(0, 500)],
                 lambda x, r: isinstance(r, (int, float)) and r >= 0 and math.isclose(r * r, x, rel_tol=1e-9, abs_tol=1e-12)),
        'sin': (ang, lambda x, r: close(r, math.sin(math.radians(x)))),
        'cos': (ang, lambda x, r: close(r, math.cos(math.radians(x)))),
        'tan': ([x for x in ang if abs(math.cos(math.radians(x))) > 1e-6],
                lambda x, r: isinstance(r, (int, float)) and math.isclose(r, math.tan(math.radians(x)), rel_tol=1e-9, abs_tol=1e-9)),
        'asin': (unit, lambda x, r: close(r, math.degrees(math.asin(x)))),
        'acos': (unit, lambda x, r: close(r, math.degrees(math.acos(x)))),
        'atan': (_grid(-50, 50, 0.25), lambda x, r: close(r, math.degrees(math.atan(x)))),
        'cycle': (_grid(-1080, 1440, 0.5) + [3607, 359.999, 360.001],
                  lambda x, r: isinstance(r, (int, float)) and 0 <= r < 360 and
                  abs((r - x) / 360 - round((r - x) / 360)) < 1e-9),
    }


def _builtin_worker(rank, n):
    w = world.World(world.POP_ONE)
    st = dict(cases=0, viol={})
    for fi, (fn, (grid, ok)) in enumerate(sorted(_oracles().items())):
        if fi % n != rank:
            continue
        for i in range(0, len(grid), 60):
            chunk = grid[i:i + 60]
            prog = tuple(('print', ('call', fn, (N(x),))) for x in chunk)
            text = render.render(prog)
            w.reset()
            res = w.run_script(text, cap=5000)
            outs = [e[1] for e in res.trace if e[0] == 'out']
            if not res.accepted or res.abort or len(outs) != len(chunk):
                st['viol']['builtin-run-problem:' + fn] = [1, text[:200], repr((res.errors, res.abort, len(outs)))]
                continue
            for x, r in zip(chunk, outs):
                st['cases'] += 1
                if not ok(x, r):
                    cur = st['viol'].setdefault('builtin-wrong-result:' + fn, [0, '[%s %r]' % (fn, x), repr(r)])
                    cur[0] += 1
    return st


def _power_worker(rank, n):
    """Whole powers are exact, however large: every a ^ b for 2 <= a <= 12, 0 <= b <= 45, alone, under %, in a
    comparison with the same power built by multiplication, with operands from variables; also negative bases and
    the float results of negative and fractional exponents (compared with Python's **)."""
    w = world.World(world.POP_ONE)
    st = dict(cases=0, viol={})
    cases = []
    for a in range(2, 13):
        for b in range(0, 46):
            cases.append(('{%d ^ %d}' % (a, b), a ** b))
            cases.append(('{%d ^ %d %% 7}' % (a, b), a ** b % 7))
            if b:
                cases.append(('{%d ^ %d == %d ^ %d * %d}' % (a, b, a, b - 1, a), True))
                cases.append(('{%d ^ %d - %d ^ %d * %d + 1}' % (a, b, a, b - 1, a), 1))
            cases.append(('{va ^ vb}', a ** b, 'assign va %d assign vb %d ' % (a, b)))
            cases.append(('{(0 - %d) ^ %d}' % (a, b), (-a) ** b))
    for a in (2, 3, 10):
        for b in (-1, -2, -3):
            cases.append(('{%d ^ (0 - %d)}' % (a, -b), a ** b))
        cases.append(('{%d ^ 0.5}' % a, a ** 0.5))
    for i, case in enumerate(cases):
        if i % n != rank:
            continue
        expr, want = case[0], case[1]
        pre = case[2] if len(case) > 2 else ''
        text = pre + 'print ' + expr
        w.reset()
        res = w.run_script(text, cap=200)
        outs = [e[1] for e in res.trace if e[0] == 'out']
        st['cases'] += 1
        if not res.accepted or res.abort or len(outs) != 1:
            st['viol'].setdefault('power-run-problem', [0, text, repr((res.errors, res.abort, outs))])[0] += 1
            continue
        got = outs[0]
        same = (got == want and (isinstance(got, float) == isinstance(want, float) or isinstance(want, bool))) \
            if not isinstance(want, float) else (isinstance(got, (int, float)) and abs(got - want) <= 1e-12 * max(1.0, abs(want)))
        if not same:
            st['viol'].setdefault('power-wrong-value', [0, text, 'got %r, exact value %r' % (got, want)])[0] += 1
    return st


# -------------------------------------------------------------------- random
import random as _pyrandom


class ChoiceRandom(_pyrandom.Random):
    """A random source whose primitive answers are explorer choices."""

    def __init__(self, chooser, max_rounds=3):
        super().__init__(0)
        self._ch = chooser
        self._rounds = 0
        self._max = max_rounds

    def getrandbits(self, k):
        if k > 6:
            raise RuntimeError('ChoiceRandom: %d bits asked for' % k)
        self._rounds += 1
        if self._rounds > self._max + 1:
            return 0                       # bound on rejection rounds: accept
        return self._ch.choose(2 ** k, 'getrandbits(%d)' % k)

    GRID = [i / 64 for i in range(64)]
    GRID[-1] = 1 - 2 ** -53

    def random(self):
        return self.GRID[self._ch.choose(64, 'random()')]


def _random_pair(args):
    a, b = args[:2]
    form = args[2] if len(args) > 2 else 'int'
    from bardolph.runtime import bardolph_math
    w = world.World(world.POP_ONE)
    if form == 'int':
        text = 'print [random %s %s]' % (render.num_text(a) if a >= 0 else '-' + render.num_text(-a),
                                         render.num_text(b) if b >= 0 else '-' + render.num_text(-b))
    else:
        # the same bounds as whole numbers that are floats: the result of a division, a literal with a decimal point
        text = 'print [random {%d / 2} {%d + 0.0}]' % (2 * a, b)
    seen = {}
    execs = 0
    saved = bardolph_math.py_random

    def run(ch):
        bardolph_math.py_random = ChoiceRandom(ch)
        try:
            w.reset()
            res = w.run_script(text)
        finally:
            bardolph_math.py_random = saved
        outs = [e[1] for e in res.trace if e[0] == 'out']
        return (res.accepted, res.abort, outs)
    bad = None
    for ch, (acc, abort, outs) in choice.explore(run, bound=None, max_execs=20000):
        execs += 1
        if not acc or abort or len(outs) != 1:
            bad = ('random-run-problem', text, repr((acc, abort, outs, ch.choices)))
            break
        seen.setdefault(outs[0], ch.choices)
    want = set(range(a, b + 1))
    got = set(seen)
    if bad is None and got != want:
        missing, extra = sorted(want - got), sorted(got - want, key=repr)
        if extra:
            bad = ('random-outside-range', text, 'returned %r with answers %r' % (extra[0], seen[extra[0]]))
        elif missing == [b]:
            bad = ('random-never-returns-upper-bound', text, 'never %r over %d answer sequences' % (b, execs))
        else:
            bad = ('random-value-unreachable', text, 'never %r over %d answer sequences' % (missing, execs))
    if bad is None and not all(isinstance(v, int) and not isinstance(v, bool) for v in got):
        bad = ('random-not-integer', text, repr(got))
    return execs, len(got), bad


def concurrent_pairs(tier):
    """Two jobs evaluating the same built-in (and operators) with different operands at the same time."""
    one = ['round', 'trunc', 'floor', 'ceil', 'sqrt', 'sin', 'cos', 'tan', 'asin', 'acos', 'atan', 'cycle']
    args = {'asin': (0.5, 1), 'acos': (0.5, 1), 'cycle': (400, 725.5)}
    out = []
    for f in one:
        a, b = args.get(f, (2.5, 7.25))
        out.append(('assign v [%s %s] print v print {[%s %s] * 2 + 1}' % (f, a, f, a),
                    'assign v [%s %s] print v print {[%s %s] * 2 + 1}' % (f, b, f, b)))
    out.append(('print [random 5 5] print {[random 6 6] + [random 7 7]}', 'print [random 50 50] print {[random 60 60] + [random 70 70]}'))
    out.append(('print {2 ^ 3 ^ 2 - 7 % 4} print {1 < 2 and 0 or 5}', 'print {3 ^ 2 ^ 2 - 9 % 5} print {2 < 1 or 0 and 5}'))
    out.append(('print [round [sqrt 16]] print [floor {[ceil 2.5] / 2}]', 'print [round [sqrt 81]] print [floor {[ceil 6.5] / 2}]'))
    tasks = [(world.POP_ONE, a, b, 1, True) for a, b in out]
    if tier != 'quick':
        # two preemptions for the shortest scripts (about a million schedules per pair and start order)
        tasks += [(world.POP_ONE, 'print [%s 2.5]' % f, 'print [%s 7.25]' % f, 2, True) for f in ('round', 'sqrt')]
        tasks.append((world.POP_ONE, 'print [random 5 5]', 'print [random 50 50]', 2, True))
    return tasks


def run(tier, seed):
    rep = Report()
    parts = ['A1', 'A2', 'B3', 'E'] + (['B4'] if tier == 'thorough' else [])
    tot = dict(cases=0, ok=0, undefined=0, steps=0)
    values = set()
    viol = {}
    per_part = {}

    def merge(v):
        for kind, (cnt, text, detail) in v.items():
            cur = viol.get(kind)
            if cur is None:
                viol[kind] = [cnt, text, detail]
            else:
                cur[0] += cnt
                if len(text) < len(cur[1]):
                    cur[1], cur[2] = text, detail
    for part in parts:
        res = par.run(_tree_worker, (part, tier))
        per_part[part] = sum(r['cases'] for r in res)
        for r in res:
            for k in tot:
                tot[k] += r[k]
            values.update(r['values'])
            merge(r['viol'])
    bres = par.run(_builtin_worker, ()) + par.run(_power_worker, ())
    bcases = sum(r['cases'] for r in bres)
    for r in bres:
        merge(r['viol'])
    pairs = [(a, b) for a in range(-3, 9) for b in range(a, 9)]
    pairs += [(a, b, 'float') for a in range(-1, 4) for b in range(a, 4)]
    rres = par.run_tasks(_random_pair, pairs)
    rexec = sum(r[0] for r in rres)
    for pr, (execs, ngot, bad) in zip(pairs, rres):
        if bad:
            merge({bad[0]: [1, bad[1], bad[2]]})
    from . import concur
    n_pairs = len(concurrent_pairs(tier))
    ctasks = concur.split(concurrent_pairs(tier), 2 if tier == 'quick' else 8)
    cres = par.run_tasks(concur.pair_task, ctasks)
    cexec = sum(r['execs'] for r in cres)
    assert cexec > 20 * n_pairs
    for kind, (cnt, text, detail) in sorted(viol.items()):
        rep.violation(kind, '%s (%d cases), e.g. `%s`: %s' % (kind, cnt, text, detail),
                      {'script': text, 'detail': detail, 'cases': cnt})
    for task, r in zip(ctasks, cres):
        for kind, (cnt, choices, detail, texts) in r['viol'].items():
            rep.violation(kind, '%s (%d schedules): %s; jobs %r' % (kind, cnt, detail, texts),
                          {'pair': [list(t) for t in texts], 'choices': choices, 'detail': detail, 'schedules': cnt, 'vm_only': True})
    rexec += cexec
    rep.coverage = {
        'states': tot['steps'] + rexec,
        'transitions': tot['cases'] + bcases + rexec,
        'traces_validated_against_impl': tot['ok'] + bcases + rexec,
        'evaluations': tot['cases'] + bcases + rexec,
        'distinct_nontrivial': len(values),
        'rule': 'A/B: every typed expression tree (14 operators; sizes per part) x 3 renderings, each compiled and run, '
                'value compared with Python evaluation of the tree; C: built-in argument grids and every whole power a^b (2<=a<=12, b<=45) exactly; D: every answer '
                'sequence of the random source (all 2^k getrandbits answers, <=3 rejection rounds; 64-point random() '
                'grid) for every -3<=a<=b<=8; F: two jobs evaluating the same built-in with different operands on two '
                'controlled threads, every schedule with <=1 preemption (thorough: 2 for three short pairs) at line granularity, each job compared with its solo run. distinct_nontrivial = distinct observed output traces.',
        'exhaustive': True,
        'cases_per_part': per_part,
        'reference_undefined_skipped': tot['undefined'],
        'builtin_evaluations': bcases,
        'random_pairs': len(pairs),
        'random_answer_sequences': rexec - cexec,
        'concurrent_job_pairs': n_pairs,
        'concurrent_schedules': cexec,
        'concurrent_preemption_bound': max(t[3] for t in ctasks),
        'samples': ['print { 2 - 3 - 5 }', 'print {2^3^2}', 'if { 2 < 3 and 0 or 7 } print 1 else print 0',
                    'print [random -3 8]  with getrandbits answers [13, 2]'],
    }
    rep.assumptions = ['operands of % are non-negative and ^ stays within a guarded magnitude (sign conventions / overflow not documented)',
                       'the three self-contradictory cells of the manual\'s built-in tables ([ceil -1.5], [trunc -1.5], [sqrt -9]) are outside the alphabet',
                       'random source replaced at bardolph_math.py_random by a random.Random subclass whose getrandbits/random are choice points']
    return rep


def replay(path):
    import json
    v = json.load(open(path))
    if 'pair' in v['witness']:
        from . import concur
        return concur.replay(world.POP_ONE, v['witness']['pair'], v['witness']['choices'], v['witness'].get('vm_only', False))
    text = v['witness']['script']
    w = world.World(world.POP_ONE)
    res = w.run_script(text)
    print('script:', text)
    print('recorded:', v['sig'], v['witness']['detail'])
    print('now: accepted=%r errors=%r abort=%r out=%r' % (
        res.accepted, res.errors, res.abort, [e for e in res.trace if e[0] == 'out']))
    return False
