"""C07 — transmitted colours and durations: protocol range, numerically exact.

Shape E over finite numeric domains.  For every command path (light, group,
location, all, zone, matrix cell, default + matrix, matrix block, on/off of
each target kind, wait) a script is compiled once by the real parser; the
literal of its MOVEQ instruction(s) is substituted per value and the program is
run on the real VM down to the simulated devices.  Expected values come from
the reference interpreter's exact rational conversion.
"""
import itertools

from .. import par, world
from ..cli import Report
from ..lang import compare, render
from ..lang import ref as refmod

from bardolph.parser.parse import Parser
from bardolph.vm.machine import Machine
from bardolph.vm.vm_codes import OpCode

D = world.Dev
POP = (D('a', 'g', 'p'), D('b', 'g', 'p'), D('s', 'k', 'q', 'strip', 8), D('m', 'k', 'q', 'matrix', 0, 2, 3))
N = lambda v: ('num', v)
S = lambda s: ('str', s)
SENT = (987001.5, 987002.5, 987003.5)      # sentinels replaced per case


def setreg(r, v):
    return ('setreg', r, N(v))


BASE_LOGICAL = (setreg('hue', 30), setreg('saturation', 40), setreg('brightness', 60), setreg('kelvin', 2700),
                setreg('duration', 1.5))
BASE_RGB = (('units', 'rgb'), setreg('red', 20), setreg('green', 40), setreg('blue', 60), setreg('kelvin', 2700),
            setreg('duration', 1.5))
BASE_RAW = (('units', 'raw'), setreg('hue', 1000), setreg('saturation', 2000), setreg('brightness', 3000),
            setreg('kelvin', 2700), setreg('duration', 1500))


def color_paths():
    return {
        'light': (('act', 'set', (('light', S('a')),)),),
        'group': (('act', 'set', (('group', S('g')),)),),
        'location': (('act', 'set', (('location', S('p')),)),),
        'all': (('act', 'set', (('all',),)),),
        'and-list': (('act', 'set', (('light', S('b')), ('light', S('s')))),),
        'zone': (('act', 'set', (('zone', S('s'), N(1), N(2)),)),),
        'matrix-cell': (('act', 'set', (('matrix', S('m'), (N(0), None), (N(1), None)),)),),
        'block': (('act', 'set', (('block', S('m'), (('stage', (N(1), None), None),)),)),),
    }


def default_path():
    # the sentinel colour becomes the default; another colour is staged
    return (('setdefault',), setreg('hue', 10), setreg('saturation', 10),
            ('act', 'set', (('matrix', S('m'), (N(0), None), None),)))


def duration_paths():
    p = dict(color_paths())
    for verb in ('on', 'off'):
        p[verb + '-light'] = (('act', verb, (('light', S('a')),)),)
        p[verb + '-group'] = (('act', verb, (('group', S('g')),)),)
        p[verb + '-location'] = (('act', verb, (('location', S('p')),)),)
        p[verb + '-all'] = (('act', verb, (('all',),)),)
    return p


class Template:
    def __init__(self, w, prog, nsent, machine=None):
        self.w = w
        self.prog = prog
        self.nsent = nsent
        text = render.render(prog)
        p = Parser()
        assert p.parse(text), (text, p.get_errors())
        self.text = text
        self.program = p.get_program()
        self.slots = []
        for k in range(nsent):
            hits = [i for i in self.program if i.op_code is OpCode.MOVEQ and i.param0 == SENT[k]]
            assert len(hits) == 1, (text, k, hits)
            self.slots.append(hits[0])
        self.machine = machine or Machine()
        self.ref = refmod.Ref(w.population)

    def _subst(self, node, vals):
        if isinstance(node, tuple):
            if len(node) == 2 and node[0] == 'num' and node[1] in SENT:
                return ('num', vals[SENT.index(node[1])])
            return tuple(self._subst(x, vals) for x in node)
        return node

    def run(self, vals):
        """-> None | (want, got) mismatch"""
        for slot, v in zip(self.slots, vals):
            slot.param0 = v
        want = self.ref.run(self._subst(self.prog, vals))
        self.w.reset()
        res = self.w.run_program(self.program, cap=400, machine=self.machine)
        if res.abort or res.raised:
            return ('abort', repr(res.abort or res.raised))
        d = compare.diff(want, res.trace)
        if d is not None:
            return ('mismatch', d)
        return None


def grid(lo, hi, step):
    k = int(round((hi - lo) / step))
    return [round(lo + i * step, 10) for i in range(k + 1)]


def cases(tier):
    """yields (case name, program AST, number of sentinels, value tuples, classification key)"""
    thorough = tier == 'thorough'
    cp = color_paths()
    # (i) raw values, each component, all 65536 -- unchanged on the wire
    raw_paths = list(cp) if thorough else ['light', 'zone']
    for path in raw_paths:
        for ci, comp in enumerate(('hue', 'saturation', 'brightness', 'kelvin')):
            prog = BASE_RAW + (setreg(comp, SENT[0]),) + cp[path]
            yield 'raw/%s/%s' % (comp, path), prog, 1, [(v,) for v in range(65536)]
    prog = BASE_RAW + (setreg('hue', SENT[0]),) + default_path()
    yield 'raw/hue/default+matrix', prog, 1, [(v,) for v in range(0, 65536, 1 if thorough else 16)]
    # out-of-range and fractional raw values
    odd_raw = [-1, -0.4, 0.5, 1.5, 65534.5, 65535.4, 65535.6, 65536, 70000, 1e12, -1e9, 2700.5]
    for path in cp:
        for comp in ('hue', 'saturation', 'brightness', 'kelvin'):
            yield 'raw-odd/%s/%s' % (comp, path), BASE_RAW + (setreg(comp, SENT[0]),) + cp[path], 1, [(v,) for v in odd_raw]
    # (ii) logical grids
    hue_grid = grid(-720, 1080, 0.25) + [359.999, 360.001, 1e9, -1e9, 0.0001]
    pct_grid = grid(-50, 150, 0.05) + [1e9, -1e9, 99.9999, 100.0001]
    kel_grid = grid(-10, 100, 0.5) + [1500, 2700, 9000, 65534.5, 65535, 65536, 1e9]
    for path in cp:
        stride = 1 if (thorough or path in ('light', 'matrix-cell', 'all')) else 5
        yield 'logical/hue/' + path, BASE_LOGICAL + (setreg('hue', SENT[0]),) + cp[path], 1, [(v,) for v in hue_grid[::stride]]
        for comp in ('saturation', 'brightness'):
            yield 'logical/%s/%s' % (comp, path), BASE_LOGICAL + (setreg(comp, SENT[0]),) + cp[path], 1, \
                [(v,) for v in pct_grid[::stride]]
        yield 'logical/kelvin/' + path, BASE_LOGICAL + (setreg('kelvin', SENT[0]),) + cp[path], 1, [(v,) for v in kel_grid]
    yield 'logical/hue/default+matrix', BASE_LOGICAL + (setreg('hue', SENT[0]),) + default_path(), 1, [(v,) for v in hue_grid[::2]]
    yield 'logical/brightness/default+matrix', BASE_LOGICAL + (setreg('brightness', SENT[0]),) + default_path(), 1, \
        [(v,) for v in pct_grid[::2]]
    # durations and delays
    dur_grid = [0, 1e-4, 4e-4, 5e-4, 6e-4, 0.001, 0.0015, 0.0149, 1, 2.5] + grid(0, 3, 0.001)[::(1 if thorough else 7)] + \
        [4294967.0, 4294967.29, 4294967.295, 4294967.296, 4294967.3, 4294968, 1e12, -1, -0.0004]
    for path, stmts in duration_paths().items():
        yield 'logical/duration/' + path, BASE_LOGICAL + (setreg('duration', SENT[0]),) + stmts, 1, [(v,) for v in dur_grid]
        yield 'rgb/duration/' + path, BASE_RGB + (setreg('duration', SENT[0]),) + stmts, 1, [(v,) for v in dur_grid[::3]]
        raw_dur = [0, 0.4, 0.5, 0.6, 1, 1500, 2 ** 32 - 2, 2 ** 32 - 1, 2 ** 32, 1e13, -5]
        yield 'raw/duration/' + path, BASE_RAW + (setreg('duration', SENT[0]),) + stmts, 1, [(v,) for v in raw_dur]
    time_grid = [1e-4, 0.001, 0.5, 1, 2.5, 1000.001, 1e6]
    yield 'logical/time/wait', BASE_LOGICAL + (setreg('time', SENT[0]), ('wait',), ('act', 'on', (('light', S('a')),))), 1, \
        [(v,) for v in time_grid]
    yield 'raw/time/wait', BASE_RAW + (setreg('time', SENT[0]), ('wait',), ('act', 'on', (('light', S('a')),))), 1, \
        [(v * 1000,) for v in time_grid]
    # (iii) rgb triples
    step = 5 if thorough else 10
    triples = list(itertools.product(range(0, 101, step), repeat=3)) + \
        [(-10, 50, 50), (150, 20, 20), (100, 100, 100.5), (0, 0, 0), (33.3, 66.6, 99.9), (1e9, 0, 0)] + \
        [t for t in itertools.product((-5, 0, 100, 105), repeat=3)]       # out of range next to zeros and to the maximum
    for path in (list(cp) if thorough else ['light', 'all', 'zone', 'matrix-cell']):
        prog = BASE_RGB + (setreg('red', SENT[0]), setreg('green', SENT[1]), setreg('blue', SENT[2])) + cp[path]
        yield 'rgb/triple/' + path, prog, 3, triples


def _worker(rank, n, tier):
    w = world.World(POP)
    st = dict(cases=0, templates=0, viol={}, distinct=0)
    idx = 0
    for name, prog, nsent, values in cases(tier):
        idx += 1
        # split the big enumerations across workers by value, the small ones by template
        share = values[rank::n] if len(values) >= 4 * n else (values if idx % n == rank else [])
        if not share:
            continue
        t = Template(w, prog, nsent)
        st['templates'] += 1
        for vals in share:
            st['cases'] += 1
            bad = t.run(vals)
            if bad is not None:
                kind = '%s:%s' % (bad[0], name.split('/')[0] + '/' + name.split('/')[1] + '/' + name.split('/')[2])
                cur = st['viol'].get(kind)
                if cur is None:
                    st['viol'][kind] = [1, t.text, vals, repr(bad[1])]
                else:
                    cur[0] += 1
    return st


def _reuse_worker(rank, n, tier):
    """One Machine executes scripts of different unit modes one after another (as a re-executed job does):
    what is transmitted depends on the current script only."""
    w = world.World(POP)
    st = dict(cases=0, templates=0, viol={})
    if rank != 0:
        return st
    cp = color_paths()
    m = Machine()
    temps = {}
    for mode, base, reg in (('logical', BASE_LOGICAL, 'hue'), ('raw', BASE_RAW, 'hue'), ('rgb', BASE_RGB, 'red')):
        for path in ('light', 'all', 'zone', 'matrix-cell'):
            # the script ends in its own mode (raw scripts end raw, rgb scripts end rgb)
            temps[(mode, path)] = Template(w, base + (setreg(reg, SENT[0]),) + cp[path], 1, machine=m)
    vals = {'logical': (120.5, 359.9), 'raw': (12345, 65535), 'rgb': (10.5, 99.5)}
    for (ka, ta), (kb, tb) in itertools.permutations(temps.items(), 2):
        for va in vals[ka[0]]:
            for vb in vals[kb[0]]:
                st['cases'] += 1
                ta.run((va,))
                bad = tb.run((vb,))
                if bad is not None:
                    kind = 'after-a-%s-script-a-%s-script-transmits-wrong-values' % (ka[0], kb[0])
                    cur = st['viol'].get(kind)
                    if cur is None:
                        st['viol'][kind] = [1, ta.text + '  THEN (same machine)  ' + tb.text, (va, vb), repr(bad[1])]
                    else:
                        cur[0] += 1
    return st


def _roundtrip_worker(rank, n, tier):
    """raw colour on the light -> `get` in logical units -> `set` another light: same raw colour."""
    w = world.World(POP)
    p = Parser()
    assert p.parse('get "a" set "b"')
    program = p.get_program()
    m = Machine()
    st = dict(cases=0, viol={})
    boundary = (0, 1, 32767, 32768, 65534, 65535)
    comps = ('hue', 'saturation', 'brightness', 'kelvin')

    # the same after earlier commands in the run (a colour was already sent, another light was read), per unit mode
    later = {}
    for text in ('hue 10 saturation 20 brightness 30 kelvin 4000 set "b" get "a" set "b"',
                 'units raw hue 10 saturation 20 brightness 30 kelvin 4000 set "b" set "a" get "a" set "b"',
                 'hue 10 saturation 20 brightness 30 kelvin 4000 set "b" get "b" on "b" get "a" set "b" set "s" zone 1',
                 'units raw get "b" set "b" get "a" set "b"'):
        p2 = Parser()
        assert p2.parse(text)
        later[text] = p2.get_program()

    def one(color, text=None):
        st['cases'] += 1
        w.reset()
        w.by_label['a'].color = list(color)
        if text is not None and 'set "a"' in text:
            # the script itself overwrites the light before reading it back: what it reads is what it wrote
            color = (10, 20, 30, 4000)
        res = w.run_program(program if text is None else later[text], cap=100, machine=m)
        sets = [e for e in res.trace if e[0] == 'dev' and e[1] == 'b' and e[2] == 'set_color']
        if res.abort or len(sets) != (1 if text is None else 2):
            return ('roundtrip-run-problem', repr((res.abort, res.trace)))
        got = sets[-1][3]
        ok = all(type(g) is int for g in got) and got[1:] == tuple(color[1:]) and \
            (got[0] == color[0] or {got[0], color[0]} == {0, 65535})
        if not ok:
            return ('get-then-set-changes-colour', '%r -> %r' % (tuple(color), got))
        return None
    todo = []
    for ci in range(4):
        for v in range(rank, 65536, n):
            for others in ((32768,), (65535,)) if tier == 'quick' else [(b,) for b in boundary]:
                c = [others[0]] * 4
                c[3] = 2700
                c[ci] = v
                todo.append(tuple(c))
    if rank == 0:
        todo += [c + (k,) for c in itertools.product(boundary, repeat=3) for k in (0, 2700, 65535)]
    for color in todo:
        bad = one(color)
        if bad is not None:
            cur = st['viol'].get(bad[0])
            if cur is None:
                st['viol'][bad[0]] = [1, 'get "a" set "b"', color, bad[1]]
            else:
                cur[0] += 1
    if rank < len(later):
        text = sorted(later)[rank]
        for color in [c + (k,) for c in itertools.product(boundary, repeat=3) for k in (0, 2700, 65535)]:
            bad = one(color, text)
            if bad is not None:
                cur = st['viol'].get(bad[0])
                if cur is None:
                    st['viol'][bad[0]] = [1, text, color, bad[1]]
                else:
                    cur[0] += 1
    return st


def concurrent_pairs(tier):
    """Two jobs sending different colours and durations through the same command path at the same time
    (a queued and a background job of the web server): each transmits its own registers' conversion."""
    A = {'logical': 'hue 120 saturation 100 brightness 50 kelvin 2700 duration 1',
         'raw': 'units raw hue 1000 saturation 2000 brightness 3000 kelvin 3500 duration 2500',
         'rgb': 'units rgb red 10 green 100 blue 50 kelvin 4000 duration 0.25'}
    B = {'logical': 'hue 240.5 saturation 33.3 brightness 99 kelvin 9000 duration 3',
         'raw': 'units raw hue 65535 saturation 1 brightness 32768 kelvin 1500 duration 7',
         'rgb': 'units rgb red 90 green 0.5 blue 75 kelvin 6500 duration 12.5'}
    cmds = [('set "a"', 'set "a"'), ('set "m" row 0', 'set "m" column 1'),
            ('set "m" begin stage row 0 hue 10 stage column 0 end', 'set "m" row 1 column 0 1'),
            ('set "s" zone 0 1', 'set "s" zone 1'), ('on "a"', 'off "a"'), ('set all', 'set "a"'),
            ('set group "g"', 'set location "p"'), ('on all', 'off group "g"')]
    modes = [('logical', 'logical'), ('logical', 'raw'), ('rgb', 'logical')] if tier == 'quick' else \
        [(x, y) for x in A for y in B]
    out = []
    for ca, cb in cmds:
        for ma, mb in modes:
            if tier == 'quick' and (ma, mb) != ('logical', 'logical') and not ca.startswith('set "m" row'):
                continue
            out.append((POP, '%s %s' % (A[ma], ca), '%s %s' % (B[mb], cb), 1))
    if tier == 'thorough':
        out.append((POP, 'duration 1 on "a"', 'duration 2 off "a"', 2))        # two preemptions: the shortest command path
    return out


def run(tier, seed):
    rep = Report()
    res = par.run(_worker, (tier,))
    rres = par.run(_roundtrip_worker, (tier,))
    ures = par.run(_reuse_worker, (tier,), nproc=1)
    viol = {}
    for r in res + rres + ures:
        for kind, (cnt, text, vals, detail) in r['viol'].items():
            cur = viol.get(kind)
            if cur is None:
                viol[kind] = [cnt, text, vals, detail]
            else:
                cur[0] += cnt
    for kind, (cnt, text, vals, detail) in sorted(viol.items()):
        rep.violation(kind, '%s (%d values), e.g. `%s` with %r: %s' % (kind, cnt, text, vals, detail),
                      {'script': text, 'values': vals, 'detail': detail, 'cases': cnt})
    from . import concur
    n_pairs = len(concurrent_pairs(tier))
    ctasks = concur.split(concurrent_pairs(tier), 2 if tier == 'quick' else 8)
    cres = par.run_tasks(concur.pair_task, ctasks)
    cexec = sum(r['execs'] for r in cres)
    assert cexec > 20 * n_pairs
    for task, r in zip(ctasks, cres):
        for kind, (cnt, choices, detail, texts) in r['viol'].items():
            rep.violation(kind, '%s (%d schedules): %s; jobs %r' % (kind, cnt, detail, texts),
                          {'pair': [list(t) for t in texts], 'choices': choices, 'detail': detail, 'schedules': cnt})
    n_cases = sum(r['cases'] for r in res)
    n_rt = sum(r['cases'] for r in rres) + sum(r['cases'] for r in ures)
    names = [c[0] for c in cases(tier)]
    rep.coverage = {
        'states': n_cases + n_rt + cexec, 'transitions': n_cases + n_rt + cexec,
        'traces_validated_against_impl': n_cases + n_rt + cexec, 'evaluations': n_cases + n_rt + cexec,
        'distinct_nontrivial': n_cases + n_rt,
        'rule': 'one VM run per (command path, unit mode, register, value): all 65536 raw values of each colour component; '
                'hue -720..1080 step 0.25, percentages -50..150 step 0.05, duration/time sets incl. 2^32 ms boundary and 1e12; rgb '
                'triples on a grid; round trip get->set for all 65536 values of each component; two jobs sending different colours through the '
                'same command path on two controlled threads (every schedule with <=1 preemption at line granularity, each job compared '
                'with its solo run); distinct_nontrivial = cases (all distinct inputs)',
        'exhaustive': True,
        'templates': len(names),
        'template_names_sample': names[::17],
        'roundtrip_cases': n_rt,
        'concurrent_job_pairs': n_pairs,
        'concurrent_schedules': cexec,
        'samples': ['units raw ... hue 65535 set "s" zone 1 2', 'hue -719.75 set group "g"', 'duration 4294967.296 on location "p"',
                    'units rgb red 10 green 100 blue 50 set "m" row 0 column 1'],
    }
    rep.assumptions = ['each path\'s script is compiled once by the real parser; per value only the MOVEQ literal is substituted '
                       '(the VM from register to device is real)', 'nearest integer, either neighbour at an exact tie (+1e-6)']
    return rep


def replay(path):
    import json
    v = json.load(open(path))
    wit = v['witness']
    if 'pair' in wit:
        from . import concur
        return concur.replay(POP, wit['pair'], wit['choices'])
    w = world.World(POP)
    text = wit['script']
    for s, val in zip(SENT, wit['values']):
        text = text.replace(render.num_text(s), render.num_text(val) if val >= 0 else '-' + render.num_text(-val))
    if 'get "a"' in text:
        w.by_label['a'].color = list(wit['values'])
    res = w.run_script(text)
    print('script:', text)
    print('recorded:', v['sig'], wit['detail'])
    for e in res.trace:
        print('   ', e)
    return False
