"""C12 — device faults and wrong-type targets never abort a script or disturb others.

Shape S over the fault oracle of the simulated LAN: every per-device request
asks the chooser whether the device answers (default) or stays silent (one
deviation).  For every script of a menu containing each command kind (plus
unknown names and every capability mismatch) ALL assignments with at most
`bound` silent requests are executed; likewise for discovery.
"""
import itertools

from .. import par, world
from ..cli import Report
from ..explore import choice

from bardolph.lib import retry as retry_mod

D = world.Dev
POP = (D('a', 'g', 'p'), D('h', 'g', 'q'), D('s', 'k', 'p', 'strip', 8), D('m', 'k', 'q', 'matrix', 0, 2, 3))
HEALTHY = 'h'


def menu():
    out = []
    cmds = []
    for verb in ('set', 'on', 'off'):
        for target in ('"a"', 'group "g"', 'location "p"', '"a" and "h"', '"s"', '"m"', 'group "k"'):
            cmds.append('%s %s' % (verb, target))
    cmds += ['set "s" zone 1 3', 'set "s" zone 2', 'set "m" row 0 column 1 2', 'set "m" column 0',
             'set "m" begin stage row 0 stage column 2 end', 'set default', 'get "a"',
             'set "s" zone 1 and "a"', 'hue 30 set all', 'on all']
    # unknown names
    cmds += ['set "nobody"', 'on "nobody"', 'off group "nogroup"', 'set location "nowhere"', 'get "nobody"',
             'set "nobody" zone 1', 'set "nobody" row 1', 'set "nobody" begin stage row 0 end',
             'set "a" and "nobody" and group "nogroup"']
    # capability mismatches
    cmds += ['set "a" zone 1', 'set "a" row 1', 'set "a" begin stage row 0 end', 'set "s" row 1', 'set "s" column 0 1',
             'set "m" zone 1', 'set "m" zone 0 2', 'get "s"', 'get "m"', 'set "a" zone 1 and "h"']
    for c in cmds:
        out.append('hue 120 saturation 50 brightness 40 kelvin 2700 duration 1 print 1 %s print 2 on "%s" print 3' % (c, HEALTHY))
    # state left by a command on a real matrix light or strip must not leak into a later wrong-type command
    for first in ('set "m" row 0 column 1', 'set "m" begin stage row 1 end', 'set "s" zone 1 3'):
        for second in ('set "a" row 5', 'set "a" column 7', 'set "s" row 4 column 4', 'set "nobody" row 9', 'set "a" zone 7',
                       'set "m" zone 6', 'set "a" begin stage row 5 column 6 end'):
            out.append('hue 120 saturation 50 brightness 40 kelvin 2700 print 1 %s %s print 2 on "%s" print 3' % (first, second, HEALTHY))
    # a `get` from a silent light, then a colour command to a healthy one, in every unit mode: the registers equal
    # what the light would have reported (all zero), so the fault-free run is the reference for the healthy light
    for mode, mod in (('logical', 'brightness 0'), ('raw', 'hue 0'), ('rgb', 'red 0'), ('rgb', 'blue 0 green 0')):
        out.append('hue 0 saturation 0 brightness 0 kelvin 0 duration 1 units %s print 1 get "a" %s print 2 set "%s" print 3'
                   % (mode, mod, HEALTHY))
        out.append('hue 0 saturation 0 brightness 0 kelvin 0 units %s print 1 get "a" print 2 set "s" zone 1 and "%s" print 3'
                   % (mode, HEALTHY))
    # a loop keeps going over a silent light
    out.append('repeat all as l begin on l end print 2 on "h" print 3')
    out.append('define f with l begin get l set l end f "a" print 2 f "h" print 3')
    return out


class Warnings:
    def __init__(self):
        self.entries = []

    def warning(self, msg, *a, **k):
        self.entries.append(str(msg))

    def error(self, msg, *a, **k):
        self.entries.append(str(msg))

    def debug(self, *a, **k): pass
    def info(self, *a, **k): pass


def run_script(w, text, chooser):
    w.reset()
    rec = Warnings()
    retry_mod.logging = rec
    w.net.fault = lambda label, op: chooser.choose(2, 'fault:%s:%s' % (label, op)) == 1
    try:
        res = w.run_script(text, cap=4000)
    finally:
        w.net.fault = None
    return res, rec, list(w.net.attempts)


def _dev_log(res, label):
    return [e for e in res.trace if e[0] == 'dev' and e[1] == label]


def judge_script(text, res, rec, attempts, base_attempts, base_res=None):
    if not res.accepted:
        return ('menu-script-rejected', res.errors)
    if res.raised:
        return ('exception-escapes-machine-run', res.raised)
    if res.abort:
        msg, et, ev, where = res.abort
        return ('script-aborted:%s@%s' % (et, where), msg)
    outs = [e[1] for e in res.trace if e[0] == 'out']
    want_outs = [1, 2, 3] if text.startswith('hue') else [2, 3]
    if [o for o in outs if o in (1, 2, 3)] != want_outs:
        return ('script-did-not-run-to-its-end', 'markers %r' % (outs,))
    failed_labels = {a[0] for a in attempts if a[2]}
    # devices without any silent request: exactly the fault-free requests, in order
    for label in {a[0] for a in base_attempts} | {a[0] for a in attempts}:
        if label in failed_labels:
            continue
        got = [a[1] for a in attempts if a[0] == label]
        want = [a[1] for a in base_attempts if a[0] == label]
        if got != want:
            return ('healthy-device-sees-different-requests', '%s: %r instead of %r' % (label, got, want))
        if base_res is not None and _dev_log(res, label) != _dev_log(base_res, label):
            return ('healthy-device-sees-different-arguments', '%s: %r instead of %r' % (
                label, _dev_log(res, label), _dev_log(base_res, label)))
    # retries: a run of consecutive silent attempts of one request is at most 3 long
    exhausted = 0
    i = 0
    while i < len(attempts):
        if attempts[i][2]:
            j = i
            # one logical request = the attempts of one (light, operation) within one VM instruction
            while j < len(attempts) and attempts[j][2] and attempts[j][:2] == attempts[i][:2] and attempts[j][3] == attempts[i][3]:
                j += 1
            run = j - i
            if run > 3:
                return ('request-attempted-more-than-three-times', '%r x%d' % (attempts[i][:2], run))
            if run == 3:
                exhausted += 1
            elif not (j < len(attempts) and attempts[j][:2] == attempts[i][:2] and attempts[j][3] == attempts[i][3]):
                return ('request-abandoned-before-three-tries', '%r after %d' % (attempts[i][:2], run))
            i = j
        else:
            i += 1
    giving_up = sum(1 for e in rec.entries if 'Giving up' in e)
    if giving_up < exhausted:
        return ('abandoned-request-not-logged', '%d exhausted, %d log entries' % (exhausted, giving_up))
    return None


def _explore_script(args):
    text, bound = args
    w = world.World(POP)
    base_res, base_rec, base_attempts = run_script(w, text, choice.Chooser([]))
    st = dict(execs=0, requests=0, viol={}, outcomes=set())
    bad0 = judge_script(text, base_res, base_rec, base_attempts, base_attempts)

    def run(ch):
        return run_script(w, text, ch)
    for ch, (res, rec, attempts) in choice.explore(run, bound=bound):
        st['execs'] += 1
        st['requests'] += len(attempts)
        st['outcomes'].add(tuple(attempts))
        bad = judge_script(text, res, rec, attempts, base_attempts, base_res)
        if bad is not None:
            kind, detail = bad
            nfail = sum(1 for a in attempts if a[2])
            cur = st['viol'].get(kind)
            if cur is None or nfail < cur[3]:
                st['viol'][kind] = [(cur[0] if cur else 0), ch.choices, detail, nfail]
            st['viol'][kind][0] += 1
    st['outcomes'] = len(st['outcomes'])
    return st


# ---------------------------------------------------------------- discovery
def directory(ls):
    return (tuple(ls.get_light_names()),
            tuple((g, tuple(ls.get_group_lights(g))) for g in ls.get_group_names()),
            tuple((l, tuple(ls.get_location_lights(l))) for l in ls.get_location_names()),
            tuple((n, type(ls.get_light(n)).__name__, ls.get_light(n).get_group(), ls.get_light(n).get_location())
                  for n in ls.get_light_names()))


def _explore_discovery(args):
    variant, bound = args
    st = dict(execs=0, requests=0, viol={}, outcomes=set())

    def run(ch):
        w = world.World(POP)                 # first discovery: fault-free
        before = directory(w.light_set)
        # the population changes before the second discovery
        if variant == 'moved':
            w.by_label['a'].group = 'k'
            w.by_label['s'].location = 'q'
        elif variant == 'new-light':
            from .. import simnet
            nd = simnet.SimDevice(w.net, 'z', 'g', 'p', 'strip', 4)
            w.devices.append(nd)
        rec = Warnings()
        retry_mod.logging = rec
        w.net.attempts.clear()
        w.net.fault = lambda label, op: ch.choose(2, 'fault:%s:%s' % (label, op)) == 1
        raised = None
        result = None
        try:
            result = w.light_set.discover()
        except BaseException as ex:       # noqa
            raised = '%s: %s' % (type(ex).__name__, ex)
        finally:
            w.net.fault = None
        try:
            after = directory(w.light_set)
        except Exception as ex:          # the directory itself is broken (e.g. a group named None cannot be sorted)
            after = ('directory-raises', '%s: %s' % (type(ex).__name__, ex))
        # a script addressing every light kind afterwards must not abort
        w.net.attempts.clear()
        res = w.run_script('on "a" set "s" zone 1 set "m" row 0 on "h" repeat group as gg on group gg repeat location as ll on location ll print 9')
        return dict(before=before, after=after, result=result, raised=raised, attempts=None,
                    script_abort=res.abort, script_out=[e for e in res.trace if e[0] == 'out'])
    fault_free_after = None
    for ch, o in choice.explore(run, bound=bound):
        st['execs'] += 1
        st['requests'] += len(ch.points)
        nfail = sum(1 for c in ch.choices if c)
        if nfail == 0:
            fault_free_after = o['after']
        bad = None
        if o['raised']:
            bad = ('discover-raises', o['raised'])
        elif o['after'][0] == 'directory-raises':
            bad = ('directory-unusable-after-discovery', o['after'][1])
        elif not isinstance(o['result'], bool):
            bad = ('discover-does-not-return-a-bool', repr(o['result']))
        elif o['result'] is False and o['after'] != o['before']:
            bad = ('failed-discovery-changes-directory', '%r -> %r' % (o['before'][0], o['after'][0]))
        elif o['result'] is True and fault_free_after is not None and o['after'] != fault_free_after:
            bad = ('successful-discovery-with-retries-gives-different-directory', '')
        elif o['script_abort'] or o['script_out'] != [('out', 9)]:
            bad = ('script-after-faulty-discovery-aborts', repr(o['script_abort']))
        st['outcomes'].add((o['result'], o['after']))
        if bad is not None:
            kind, detail = bad
            cur = st['viol'].get(kind)
            if cur is None or nfail < cur[3]:
                st['viol'][kind] = [(cur[0] if cur else 0), ch.choices, detail, nfail]
            st['viol'][kind][0] += 1
    st['outcomes'] = len(st['outcomes'])
    return st


def run(tier, seed):
    rep = Report()
    # a script next to the discovery thread (every known light answers): the script's commands are those of its solo run
    from . import concur
    cpairs = [(POP, 'print 1 on "a" set "h" on group "k" print 2', '<discover>', 1),
              (POP, 'set "s" zone 1 set "m" row 0 off location "p"', '<refresh>', 1)]
    ctasks = concur.split(cpairs, 4)
    cres = par.run_tasks(concur.pair_task, ctasks)
    cexec = sum(r['execs'] for r in cres)
    assert cexec > 50
    for task, r in zip(ctasks, cres):
        for kind, (cnt, choices, detail, texts) in r['viol'].items():
            rep.violation(kind + ':next-to-discovery', '%s (%d schedules): %s; threads %r' % (kind, cnt, detail, texts),
                          {'pair': [list(t) for t in texts], 'choices': choices, 'detail': detail, 'schedules': cnt})
    bound = 6 if tier == 'quick' else 9
    scripts = menu()
    tasks = [(t, bound) for t in scripts]
    res = par.run_tasks(_explore_script, tasks)
    dtasks = [(v, bound) for v in ('same', 'moved', 'new-light')]
    dres = par.run_tasks(_explore_discovery, dtasks)
    viol = {}
    tot_exec = tot_req = outcomes = 0
    for (text, b), st in zip(tasks, res):
        tot_exec += st['execs']
        tot_req += st['requests']
        outcomes += st['outcomes']
        for kind, (cnt, choices, detail, nfail) in st['viol'].items():
            cur = viol.get(kind)
            if cur is None or (nfail, len(text)) < (cur[4], len(cur[3])):
                viol[kind] = [(cur[0] if cur else 0) + cnt, choices, detail, text, nfail, 'script']
            else:
                cur[0] += cnt
    for (variant, b), st in zip(dtasks, dres):
        tot_exec += st['execs']
        tot_req += st['requests']
        outcomes += st['outcomes']
        for kind, (cnt, choices, detail, nfail) in st['viol'].items():
            cur = viol.get(kind)
            if cur is None or nfail < cur[4]:
                viol[kind] = [(cur[0] if cur else 0) + cnt, choices, detail, 'discover:' + variant, nfail, 'discovery']
            else:
                cur[0] += cnt
    for kind, (cnt, choices, detail, text, nfail, part) in sorted(viol.items()):
        rep.violation(kind, '%s (%d fault assignments), fewest silent requests %d: `%s`: %s' % (kind, cnt, nfail, text, detail),
                      {'script': text, 'choices': choices, 'detail': detail, 'part': part, 'assignments': cnt})
    rep.coverage = {
        'script_next_to_discovery_schedules': cexec,
        'states': tot_req, 'transitions': tot_req,
        'traces_validated_against_impl': tot_exec, 'evaluations': tot_exec,
        'distinct_nontrivial': outcomes,
        'rule': 'per script of the %d-script menu and per discovery variant: every assignment of answer/silent to the per-device '
                'requests with <=%d silent requests; states = requests made; distinct_nontrivial = distinct request/attempt '
                'sequences (scripts) and distinct (result, directory) pairs (discovery)' % (len(scripts), bound),
        'exhaustive': True,
        'silent_request_bound': bound,
        'menu_scripts': len(scripts),
        'discovery_variants': [v for v, b in dtasks],
        'samples': [scripts[0], scripts[-1], 'discover with get_color_zones of "s" silent x3'],
    }
    rep.assumptions = ['faults are WorkflowException raised by the simulated device before it acts; the two broadcast frames '
                       '(set_color_all_lights / set_power_all_lights) have no per-light answer and are outside the fault alphabet']
    return rep


def replay(path):
    import json
    v = json.load(open(path))
    wit = v['witness']
    print('recorded:', v['sig'], wit['detail'])
    if 'pair' in wit:
        from . import concur
        return concur.replay(POP, wit['pair'], wit['choices'])
    if wit['part'] == 'script':
        w = world.World(POP)
        ch = choice.Chooser(wit['choices'])
        res, rec, attempts = run_script(w, wit['script'], ch)
        print('script:', wit['script'])
        print('attempts:', attempts)
        print('abort:', res.abort, 'out:', [e for e in res.trace if e[0] == 'out'])
        return res.abort is None
    return False
