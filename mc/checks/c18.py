"""C18 — replaying a captured snapshot script restores the captured state.

Shape E: populations mixing plain, multizone and matrix lights; raw states with
each component taking all 65 536 values one at a time and all combinations of
boundary values; power on/off; light names containing each printable Latin-1
character; several replay-time states.  Capture through the real wrappers
(ScriptSnapshot over LightSet/lifx_lan_light), compile the generated text, run
it on the real VM, compare every device's colour / power / zones / cells with
the captured ones.
"""
import itertools

from .. import par, world
from ..cli import Report

from bardolph.controller.snapshot import ScriptSnapshot

D = world.Dev
BOUNDARY = (0, 1, 32767, 32768, 65534, 65535)
KINDS = {
    'plain': lambda n: D(n, 'g', 'p'),
    'strip1': lambda n: D(n, 'g', 'p', 'strip', 1),
    'strip2': lambda n: D(n, 'g', 'p', 'strip', 2),
    'strip8': lambda n: D(n, 'g', 'p', 'strip', 8),
    'strip9': lambda n: D(n, 'g', 'p', 'strip', 9),
    'strip17': lambda n: D(n, 'g', 'p', 'strip', 17),
    'matrix1x1': lambda n: D(n, 'g', 'p', 'matrix', 0, 1, 1),
    'matrix2x2': lambda n: D(n, 'g', 'p', 'matrix', 0, 2, 2),
    'matrix6x5': lambda n: D(n, 'g', 'p', 'matrix', 0, 6, 5),
    'matrix2x5': lambda n: D(n, 'g', 'p', 'matrix', 0, 2, 5),
}


def pattern(seed, i):
    """deterministic raw colour for cell/zone i"""
    x = (seed * 2654435761 + i * 40503) & 0xffffffff
    return [(x >> 3) % 65536, (x >> 7) % 65536, (x >> 11) % 65536, 1500 + (x >> 5) % 7500]


def apply_state(dev, seed, power=None):
    dev.color = pattern(seed, 0)
    dev.power = (65535 if (seed % 2 == 0) else 0) if power is None else power
    dev.zones = [pattern(seed, i + 1) for i in range(dev.n_zones)]
    dev.cells = [pattern(seed, i + 1) for i in range(dev.height * dev.width)]
    if dev.kind == 'strip' and dev.zones:
        dev.color = list(dev.zones[0])


def observable(dev):
    """what the property promises to restore for this kind of light"""
    if dev.kind == 'plain':
        return ('plain', tuple(dev.color), dev.power)
    if dev.kind == 'strip':
        return ('strip', tuple(tuple(z) for z in dev.zones))
    return ('matrix', tuple(tuple(c) for c in dev.cells))


def round_trip(w, set_captured, set_replay, capture=None):
    """-> None | (kind, detail, text)"""
    for d in w.devices:
        set_captured(d)
    want = {d.label: observable(d) for d in w.devices}
    try:
        text = ScriptSnapshot().generate(None).text if capture is None else capture()
    except Exception as ex:
        return ('capture-raises', repr(ex), '')
    for d in w.devices:
        set_replay(d)
    w.net.log.clear()
    res = w.run_script(text, cap=20000)
    if res.accepted is None:
        return ('snapshot-script-crashes-compiler', res.raised, text)
    if not res.accepted:
        return ('snapshot-script-does-not-compile', res.errors, text)
    if res.abort or res.raised or res.capped:
        return ('snapshot-script-aborts', repr(res.abort or res.raised or 'capped'), text)
    for d in w.devices:
        got = observable(d)
        if got != want[d.label]:
            part = got[0]
            return ('replay-does-not-restore-%s-light' % part,
                    '%s: captured %r, after replay %r' % (d.label, _short(want[d.label]), _short(got)), text)
    return None


def _short(x):
    s = repr(x)
    return s if len(s) < 200 else s[:200] + '...'


def _worker_components(rank, n, tier):
    w = world.World((D('Lamp', 'g', 'p'),))
    dev = w.devices[0]
    st = dict(cases=0, viol={})
    stride = 1
    for ci in range(4):
        for v in range(rank, 65536, n * stride):
            for base in ((32768, 65535, 1, 2700), (65535, 0, 65534, 9000)):
                color = list(base)
                color[ci] = v

                def cap(d, color=color, v=v):
                    d.color = list(color)
                    d.power = 65535 if v % 2 else 0

                def rep_state(d):
                    d.color = [65535, 65535, 65535, 65535]
                    d.power = 65535
                st['cases'] += 1
                bad = round_trip(w, cap, rep_state)
                if bad:
                    _note(st, bad)
    return st


def _note(st, bad):
    kind, detail, text = bad
    cur = st['viol'].get(kind)
    if cur is None or len(text) < len(cur[2]):
        st['viol'][kind] = [(cur[0] if cur else 0), detail, text]
    st['viol'][kind][0] += 1


def _worker_combos(rank, n, tier):
    st = dict(cases=0, viol={})
    idx = 0
    for kind in ('plain', 'strip2', 'matrix2x2', 'matrix2x5'):
        w = world.World((KINDS[kind]('L'),))       # one world at a time: a World rebinds the injection container
        for combo in itertools.product(BOUNDARY, repeat=4):
            for power in (0, 65535):
                idx += 1
                if idx % n != rank:
                    continue

                def cap(d, combo=combo, power=power):
                    d.color = list(combo)
                    d.power = power
                    d.zones = [list(combo[i:] + combo[:i]) for i in range(d.n_zones)]
                    d.cells = [list(combo[(i % 4):] + combo[:(i % 4)]) for i in range(d.height * d.width)]

                for replay_seed in (None, 0) if tier == 'quick' else (None, 0, 7):
                    def rep_state(d, rs=replay_seed):
                        if rs is None:
                            d.reset_state()
                        else:
                            apply_state(d, 99 + rs)
                    st['cases'] += 1
                    bad = round_trip(w, cap, rep_state)
                    if bad:
                        _note(st, bad)
    return st


def _worker_populations(rank, n, tier):
    st = dict(cases=0, viol={})
    kinds = sorted(KINDS)
    pops = []
    for k in (1, 2, 3):
        pops += list(itertools.combinations_with_replacement(kinds, k))
    idx = 0
    for pop_kinds in pops:
        idx += 1
        if idx % n != rank:
            continue
        pop = tuple(KINDS[k]('L%d %s' % (i, k)) for i, k in enumerate(pop_kinds))
        w = world.World(pop)
        for seed in (1, 2, 3):
            for replay in ('zero', 'full', 'other'):
                def cap(d, seed=seed):
                    apply_state(d, seed * 31 + hash(d.label) % 17)

                def rep_state(d, replay=replay, seed=seed):
                    if replay == 'zero':
                        d.reset_state()
                    elif replay == 'full':
                        d.color = [65535] * 4
                        d.power = 65535
                        d.zones = [[65535] * 4 for _ in d.zones]
                        d.cells = [[65535] * 4 for _ in d.cells]
                    else:
                        apply_state(d, seed * 77 + 5)
                st['cases'] += 1
                bad = round_trip(w, cap, rep_state)
                if bad:
                    _note(st, bad)
    return st


PALETTE = ([100, 200, 300, 2700], [40000, 50000, 60000, 9000], [100, 200, 300, 9000])


def _slots(dev):
    return {'plain': 1, 'strip': dev.n_zones, 'matrix': dev.height * dev.width}[dev.kind]


def _worker_shared_colours(rank, n, tier):
    """Lights of every kind in every name order whose zones, cells and colours are drawn from a palette of two
    (thorough: three) colours in every way: neighbouring lights and zones share colours, in part or entirely."""
    st = dict(cases=0, viol={})
    kinds = ('plain', 'strip1', 'strip2', 'matrix1x1')
    pal = PALETTE[:2] if tier == 'quick' else PALETTE
    idx = 0
    for k in (2, 3):
        for pop_kinds in itertools.product(kinds, repeat=k):
            idx += 1
            if idx % n != rank:
                continue
            pop = tuple(KINDS[kd]('L%d' % i) for i, kd in enumerate(pop_kinds))
            w = world.World(pop)
            counts = [_slots(d) for d in w.devices]
            for colouring in itertools.product(range(len(pal)), repeat=sum(counts)):
                def cap(d, colouring=colouring):
                    i = w.devices.index(d)
                    mine = colouring[sum(counts[:i]):sum(counts[:i + 1])]
                    d.color = list(pal[mine[0]])
                    d.power = 65535 if mine[0] else 0
                    d.zones = [list(pal[c]) for c in mine] if d.kind == 'strip' else []
                    d.cells = [list(pal[c]) for c in mine] if d.kind == 'matrix' else []

                def rep_state(d):
                    d.color = [7, 7, 7, 3000]
                    d.power = 65535
                    d.zones = [[7, 7, 7, 3000] for _ in d.zones]
                    d.cells = [[7, 7, 7, 3000] for _ in d.cells]
                st['cases'] += 1
                bad = round_trip(w, cap, rep_state)
                if bad:
                    _note(st, bad)
    return st


def _worker_web_capture(rank, n, tier):
    """The web Capture button (WebApp.snapshot writes <script_path>/__snapshot__.ls) pressed several times in a row
    with different light states: what the file holds after the last capture restores the last captured state."""
    import os
    import shutil
    import tempfile
    from .. import flaskstub
    flaskstub.install()
    from web import web_app
    st = dict(cases=0, viol={})
    workdir = tempfile.mkdtemp(prefix='c18web_', dir='/var/tmp')
    try:
        idx = 0
        for pop_kinds in (('plain',), ('strip2',), ('matrix2x2',), ('plain', 'strip8'), ('strip9', 'matrix2x5', 'plain')):
            idx += 1
            if idx % n != rank % n:
                continue
            pop = tuple(KINDS[k]('L%d' % i) for i, k in enumerate(pop_kinds))
            w = world.World(pop, overrides={'manifest_file_name': None, 'script_path': workdir})
            app = web_app.WebApp()
            path = os.path.join(workdir, '__snapshot__.ls')

            def capture():
                app.snapshot()
                return open(path).read()
            states = {'zero': lambda d: d.reset_state(),
                      'full': lambda d: (setattr(d, 'color', [65535] * 4), setattr(d, 'power', 65535),
                                         setattr(d, 'zones', [[65535] * 4 for _ in d.zones]),
                                         setattr(d, 'cells', [[65535] * 4 for _ in d.cells])),
                      'other': lambda d: apply_state(d, 12345)}
            for history in itertools.permutations(states, 2):
                if os.path.exists(path):
                    os.remove(path)
                for name in history[:-1]:
                    for d in w.devices:
                        states[name](d)
                    capture()
                st['cases'] += 1
                bad = round_trip(w, states[history[-1]], states['other' if history[-1] != 'other' else 'zero'], capture)
                if bad:
                    _note(st, (bad[0] + ':after-an-earlier-capture', bad[1] + ' (captures: %s)' % ' then '.join(history), bad[2]))
    finally:
        shutil.rmtree(workdir, ignore_errors=True)
    return st


LOADED = ['\\', '#', '{', '}', '[', ']', ':', '*', ' ', '%', "'", '-']


def names():
    # every character of Latin-1 except NUL, the double quote and the two line-break characters -- control
    # characters and the separators that str.splitlines() knows (VT, FF, FS, GS, RS, NEL) included -- and a few
    # beyond Latin-1 (LINE/PARAGRAPH SEPARATOR, CJK, an astral-plane character)
    chars = [chr(c) for c in range(1, 256) if chr(c) not in '"\n\r'] + ['\u2028', '\u2029', '\u4e2d', '\U0001F600']
    yield ''              # a light without a name (the protocol allows an empty label)
    for c in chars:
        for nm in ('x' + c + 'y', c + 'y', 'x' + c, c):
            yield nm
    for a in LOADED:
        for b in LOADED:
            yield 'n' + a + b
            yield a + b


def _worker_names(rank, n, tier):
    st = dict(cases=0, viol={})
    for i, nm in enumerate(names()):
        if i % n != rank:
            continue
        if nm == '' and i != 0:
            continue
        for kind in ('plain', 'strip2', 'matrix1x1'):
            base = KINDS[kind](nm)
            w = world.World((base,))
            st['cases'] += 1
            bad = round_trip(w, lambda d: apply_state(d, 5), lambda d: d.reset_state())
            if bad:
                kind_, detail, text = bad
                if nm.endswith('\\'):
                    kind_ = kind_ + ':name-ending-in-backslash'
                if nm == '':
                    kind_ = kind_ + ':light-without-a-name'
                _note(st, (kind_, detail, text))
    return st


def run(tier, seed):
    rep = Report()
    parts = {
        'components': par.run(_worker_components, (tier,)),
        'boundary-combinations': par.run(_worker_combos, (tier,)),
        'populations': par.run(_worker_populations, (tier,)),
        'names': par.run(_worker_names, (tier,)),
        'shared-colours': par.run(_worker_shared_colours, (tier,)),
        'web-capture': par.run(_worker_web_capture, (tier,), nproc=5),
    }
    viol = {}
    per = {}
    for pname, res in parts.items():
        per[pname] = sum(r['cases'] for r in res)
        for r in res:
            for kind, (cnt, detail, text) in r['viol'].items():
                cur = viol.get(kind)
                if cur is None or len(text) < len(cur[2]):
                    viol[kind] = [(cur[0] if cur else 0) + cnt, detail, text, pname]
                else:
                    cur[0] += cnt
    for kind, (cnt, detail, text, pname) in sorted(viol.items()):
        rep.violation(kind, '%s (%d round trips, part %s): %s; script starts %r' % (kind, cnt, pname, detail, text[:160]),
                      {'snapshot_script': text[:4000], 'detail': detail, 'part': pname, 'round_trips': cnt})
    total = sum(per.values())
    rep.coverage = {
        'states': total, 'transitions': total,
        'traces_validated_against_impl': total, 'evaluations': total,
        'distinct_nontrivial': total,
        'rule': 'one capture->compile->replay round trip per case: each raw component over all 65536 values (two backgrounds); all 6^4 '
                'boundary combinations x power x {plain, 2-zone strip, 2x2 matrix} x replay-time states; all populations of <=3 lights over 9 '
                'light kinds x 3 states x 3 replay-time states; every Latin-1 character (control characters included; not NUL, quote, CR, LF) and four beyond Latin-1 in 4 name positions x 3 light kinds; every ordered population of 2..3 lights over '
                '{plain, 1-zone, 2-zone, 1x1 matrix} x every colouring of all their zones/cells/colours from a palette of 2 (thorough 3) colours; the web Capture handler pressed twice with different states (longer then shorter script and the reverse)',
        'exhaustive': True,
        'round_trips_per_part': per,
        'samples': ['units raw hue 12345 saturation 65535 brightness 1 kelvin 2700 set "Lamp" on "Lamp"'],
    }
    rep.assumptions = ['capture goes through the real LightSet and lifx_lan_light wrappers over the simulated devices; a multizone/matrix '
                       'light\'s power is not part of what the property promises to restore']
    return rep


def replay(path):
    import json
    v = json.load(open(path))
    print('recorded:', v['sig'], v['witness']['detail'])
    print(v['witness']['snapshot_script'][:1500])
    return False
