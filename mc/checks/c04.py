"""C04 — every repeat form runs the documented number of times with the
documented values; light iteration visits each name once in name order;
break ends only the innermost loop.

Shape E over gen_loops on four populations (0, 1, 2, 4 lights; shared and
unshared groups/locations; group names sorting before and after light names)."""
from .. import world
from ..cli import Report
from . import progcheck

D = world.Dev
POPS = {
    'p0': (),
    'p1': (D('m', 'g', 'p'),),
    'p2': (D('a', 'g', 'p'), D('b', 'g', 'q')),
    'p4': (D('b', 'a', 'e'), D('d', 'm', 'z'), D('f', 'a', 'z'), D('k', 'm', 'e')),
}


def run(tier, seed):
    rep = Report()
    acc = progcheck.Accum()
    for name in ('p4', 'p2', 'p1', 'p0'):
        nest = (3 if name in ('p4', 'p2') else 2) if tier == 'thorough' else 2
        acc.run('loops/%s+nested%d' % (name, nest), 'mc.lang.gen_loops', 'programs',
                (POPS[name], nest), POPS[name], cap=20000)
    acc.report(rep, 'every loop spec of gen_loops (counts 0,1,2,3,5 as literal/variable/expression; all 36 integer ranges; '
                    'interpolation and cycle grids; all/group/location/in-lists with from/cycle) x break none/unconditional/'
                    'second-pass x in-routine; cycle in each unit mode; nested pairs over a reduced spec set x 5 break '
                    'placements; on populations of 0,1,2,4 lights')
    return rep


replay = progcheck.replay
