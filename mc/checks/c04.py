"""C04 — every repeat form runs the documented number of times with the
documented values; light iteration visits each name once in name order;
break ends only the innermost loop.

Shape E over gen_loops on four populations (0, 1, 2, 4 lights; shared and
unshared groups/locations; group names sorting before and after light names)."""
from .. import world
from ..cli import Report
from . import progcheck

D = world.Dev
POPS = {
    'p0': (),
    'p1': (D('m', 'g', 'p'),),
    'p2': (D('a', 'g', 'p'), D('b', 'g', 'q')),
    'p4': (D('b', 'a', 'e'), D('d', 'm', 'z'), D('f', 'a', 'z'), D('k', 'm', 'e')),
    # names that differ in capitalisation: "name order" is code-point order, capitals first
    'pc': (D('Bulb', 'Kitchen', 'Up'), D('apple', 'hall', 'down'), D('Cord', 'Lounge', 'down'), D('desk', 'office', 'Up'),
           D('Zed', 'hall', 'Attic')),
}


def _dynamic(tier):
    """The population changes between discoveries (a light vanishes and ages out, another moves): loops over
    groups, locations and lights must follow the directory as it is when the script runs."""
    from ..lang import gen_loops, harness
    from bardolph.controller import light as light_mod

    class VT:
        now = 5000.0

        def time(self):
            return VT.now
    viol = {}
    n = 0
    histories = [
        ((D('x', 'solo', 'here'), D('y', 'g', 'p')), ('x',), ()),                  # the only member of a group expires
        ((D('a', 'g', 'p'), D('b', 'g', 'q'), D('c', 'h', 'q')), ('c',), ()),
        ((D('a', 'g', 'p'), D('b', 'g', 'q'), D('c', 'h', 'q')), (), (('b', 'h', 'p'),)),   # a light moves
        ((D('a', 'g', 'p'), D('b', 'h', 'q')), ('a', 'b'), ()),                     # everything expires
    ]
    for pop, vanish, moves in histories:
        light_mod.time = VT()
        VT.now = 5000.0
        w = world.World(pop, overrides={'light_gc_time': 100})
        w.devices[:] = [d for d in w.devices if d.label not in vanish]
        for label, g, loc in moves:
            w.by_label[label].group, w.by_label[label].location = g, loc
        from .. import simnet
        simnet.SimLan.current_devices = w.devices
        VT.now += 150
        w.light_set.refresh()
        now_pop = tuple(D(d.label, d.group, d.location) for d in w.devices)
        w.population = now_pop
        specs = gen_loops.light_specs(now_pop, '0')
        for tag, pre, spec, vs in specs:
            prog = pre + (('repeat', spec, tuple(('print', ('var', v)) for v in vs)), ('print', ('num', 99)))
            n += 1
            o = harness.run_ast(w, prog)
            if o.status not in ('ok', 'undefined'):
                kind = 'after-expiry-or-move:' + progcheck.default_classify(o)
                viol.setdefault(kind, [0, o.text, repr(o.detail), pop])[0] += 1
    return n, viol


def run(tier, seed):
    rep = Report()
    acc = progcheck.Accum()
    for name in ('p4', 'p2', 'p1', 'p0'):
        nest = (3 if name in ('p4', 'p2') else 2) if tier == 'thorough' else 2
        acc.run('loops/%s+nested%d' % (name, nest), 'mc.lang.gen_loops', 'programs',
                (POPS[name], nest), POPS[name], cap=20000)
    acc.run('loops/pc', 'mc.lang.gen_loops', 'programs', (POPS['pc'], 0), POPS['pc'], cap=20000)
    acc.report(rep, 'every loop spec of gen_loops (counts 0,1,2,3,5 as literal/variable/expression; all 36 integer ranges; '
                    'interpolation and cycle grids; all/group/location/in-lists with from/cycle) x break none/unconditional/'
                    'second-pass x in-routine; cycle in each unit mode; nested pairs over a reduced spec set x 5 break '
                    'placements; on populations of 0,1,2,4 lights and one of 5 lights whose names, groups and locations differ in capitalisation')
    n_dyn, dviol = _dynamic(tier)
    for kind, (cnt, text, detail, pop) in sorted(dviol.items()):
        rep.violation(kind, '%s (%d programs), population at first discovery %r: `%s` -> %s' % (kind, cnt, [tuple(d)[:3] for d in pop], text, detail),
                      {'script': text, 'population': [list(d) for d in pop], 'detail': detail, 'part': 'dynamic'})
    rep.coverage['dynamic_population_programs'] = n_dyn
    # two jobs enumerating the same lists of names at the same time (a queued and a background job)
    from . import concur
    from .. import par
    pairs = [('repeat all as l begin on l end', 'repeat all as l begin off l end'),
             ('repeat in group "g" as l begin on l end', 'repeat in group "g" and "c" as l with h from 10 to 30 begin print h end'),
             ('repeat group as g begin print g end', 'repeat group as g with h cycle begin print g print h end'),
             ('repeat in location "q" as l begin on l end', 'repeat location as p begin print p end')]
    ctasks = concur.split([(world.POP_THREE, a, b, 1) for a, b in pairs], 4 if tier == 'quick' else 8)
    cres = par.run_tasks(concur.pair_task, ctasks)
    cexec = sum(r['execs'] for r in cres)
    assert cexec > 20 * len(pairs)
    for task, r in zip(ctasks, cres):
        for kind, (cnt, choices, detail, texts) in r['viol'].items():
            rep.violation(kind, '%s (%d schedules): %s; jobs %r' % (kind, cnt, detail, texts),
                          {'pair': [list(t) for t in texts], 'choices': choices, 'detail': detail, 'schedules': cnt})
    rep.coverage['concurrent_job_pairs'] = len(pairs)
    rep.coverage['concurrent_schedules'] = cexec
    rep.coverage['evaluations'] += cexec
    rep.coverage['traces_validated_against_impl'] += cexec
    rep.coverage['rule'] += '; %d pairs of jobs iterating over the same name lists on two controlled threads, every schedule with <=1 ' \
                            'preemption at line granularity, each job compared with its solo run' % len(pairs)
    return rep


def replay(path):
    import json
    v = json.load(open(path))
    if 'pair' in v['witness']:
        from . import concur
        return concur.replay(world.POP_THREE, v['witness']['pair'], v['witness']['choices'])
    return progcheck.replay(path)
