"""A stand-in for the small part of the Flask API that web/front_end.py uses.

Flask and Jinja2 are not installed in this image (and not in the wheelhouse).
`render_template` loads the real template file and interprets the subset of
Jinja the three templates use ({{ expr }}, if/elif/else, for, macro + call,
`is defined`, `is even`, loop.index/last): every variable reference is resolved
against the context it was given; a missing attribute is an error.  This is
what "render without error" can mean here.
"""
import os
import re
import sys
import types

from . import repo

CALLS = []          # (template name, context) of every render_template call


class _Missing(Exception):
    pass


class _Attr:
    """attribute access over dicts and objects, strict"""

    def __init__(self, obj, path):
        self._o = obj
        self._p = path

    @staticmethod
    def wrap(v, path):
        if isinstance(v, (str, int, float, bool)) or v is None:
            return v
        return _Attr(v, path)

    def __getattr__(self, name):
        o = object.__getattribute__(self, '_o')
        p = object.__getattribute__(self, '_p')
        if isinstance(o, dict):
            if name in o:
                return _Attr.wrap(o[name], p + '.' + name)
            raise _Missing('%s.%s' % (p, name))
        if hasattr(o, name):
            return _Attr.wrap(getattr(o, name), p + '.' + name)
        raise _Missing('%s.%s' % (p, name))

    def __iter__(self):
        o = object.__getattribute__(self, '_o')
        p = object.__getattribute__(self, '_p')
        return (_Attr.wrap(x, p + '[]') for x in o)

    def __bool__(self):
        o = object.__getattribute__(self, '_o')
        try:
            return bool(len(o))
        except TypeError:
            return bool(o)

    def __str__(self):
        return str(object.__getattribute__(self, '_o'))


class _Loop:
    def __init__(self, index, last):
        self.index = index
        self.last = last


_TOK = re.compile(r'(\{\{.*?\}\}|\{%.*?%\})', re.S)


def _prep(expr):
    expr = re.sub(r'(\w[\w.]*)\s+is\s+not\s+defined', r'(not defined("\1"))', expr)
    expr = re.sub(r'(\w[\w.]*)\s+is\s+defined', r'defined("\1")', expr)
    expr = re.sub(r'([\w.]+)\s+is\s+not\s+even', r'(\1 % 2 != 0)', expr)
    expr = re.sub(r'([\w.]+)\s+is\s+even', r'(\1 % 2 == 0)', expr)
    return expr.strip()


def _eval(expr, env):
    scope = dict(env)
    scope['defined'] = lambda name: name.split('.')[0] in env
    try:
        return eval(_prep(expr), {'__builtins__': {}}, scope)      # noqa: template expressions of the repo only
    except NameError as ex:
        raise _Missing(str(ex))


def _render(tokens, env, out):
    i = 0
    while i < len(tokens):
        t = tokens[i]
        if t.startswith('{{'):
            v = _eval(t[2:-2], env)
            out.append(str(v))
            i += 1
        elif t.startswith('{%'):
            stmt = t[2:-2].strip().strip('-').strip()
            word = stmt.split()[0]
            if word in ('if', 'for', 'macro'):
                depth, j = 1, i + 1
                branches = [(stmt, i + 1)]
                while depth:
                    s = tokens[j][2:-2].strip().strip('-').strip() if tokens[j].startswith('{%') else ''
                    w0 = s.split()[0] if s else ''
                    if w0 in ('if', 'for', 'macro'):
                        depth += 1
                    elif w0 in ('endif', 'endfor', 'endmacro'):
                        depth -= 1
                    elif depth == 1 and w0 in ('else', 'elif'):
                        branches.append((s, j + 1))
                    j += 1
                end = j - 1
                bounds = [b[1] for b in branches] + [end + 1]
                if word == 'if':
                    for k, (s, start) in enumerate(branches):
                        cond = True if s == 'else' else bool(_eval(s.split(None, 1)[1], env))
                        if cond:
                            _render(tokens[start:bounds[k + 1] - 1], env, out)
                            break
                elif word == 'for':
                    m = re.match(r'for\s+(\w+)\s+in\s+(.+)', stmt)
                    seq = list(_eval(m.group(2), env))
                    for k, item in enumerate(seq):
                        e2 = dict(env)
                        e2[m.group(1)] = item
                        e2['loop'] = _Loop(k + 1, k == len(seq) - 1)
                        _render(tokens[i + 1:end], e2, out)
                else:
                    m = re.match(r'macro\s+(\w+)\((.*?)\)', stmt)
                    body = tokens[i + 1:end]
                    params = [p.strip() for p in m.group(2).split(',') if p.strip()]

                    def macro(*args, _body=body, _params=params, _env=env):
                        e2 = dict(_env)
                        e2.update(zip(_params, args))
                        o2 = []
                        _render(_body, e2, o2)
                        return ''.join(o2)
                    env[m.group(1)] = macro
                i = end + 1
            else:
                i += 1
        else:
            out.append(t)
            i += 1


def render_template(name, **ctx):
    CALLS.append((name, ctx))
    path = os.path.join(repo.REPO, 'web', 'templates', name)
    text = open(path, encoding='utf-8').read()
    tokens = [t for t in _TOK.split(text) if t]
    env = {k: _Attr.wrap(v, k) for k, v in ctx.items()}
    out = []
    _render(tokens, env, out)
    return ''.join(out)


class Blueprint:
    def __init__(self, name, import_name):
        self.routes = {}

    def route(self, rule):
        def deco(fn):
            self.routes[rule] = fn
            return fn
        return deco


class _Headers:
    def get(self, name, default=None):
        return 'Mozilla/5.0 (X11; Linux x86_64)'


request = types.SimpleNamespace(headers=_Headers())


def install():
    mod = types.ModuleType('flask')
    mod.Blueprint = Blueprint
    mod.render_template = render_template
    mod.request = request
    mod.Flask = None
    sys.modules['flask'] = mod
    return mod
