"""known_findings.json: genuine defects recorded (open) or repaired (fixed).

Never written at run time.  A violation is suppressed only when its signature
equals the signature of an *open* entry of the same property; signatures are
computed by each check from the specific failing input / call site / history,
so a different violation of the same property still fails the check.  A
`fixed` entry suppresses nothing.
"""
import json
import os

PATH = os.path.join(os.path.dirname(os.path.dirname(os.path.abspath(__file__))),
                    'known_findings.json')


def load():
    if not os.path.exists(PATH):
        return []
    with open(PATH) as f:
        return json.load(f).get('findings', [])


def match(known, prop, sig):
    for e in known:
        if e.get('status') == 'open' and e.get('property') == prop and e.get('sig') == sig:
            return e
    return None
