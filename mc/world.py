"""A fresh injected bardolph world over the simulated LAN.

Real: Parser, CodeGen, Loader, Machine, LightSet, LifxLanApi, lifx_lan_light.*.
Simulated: the LAN (simnet), time (recording clock), output (recorder).
"""
import logging
import sys
import types
from collections import namedtuple

from . import repo  # noqa: F401  (sets sys.path)
from . import simnet

import lifxlan as _real_lifxlan
from bardolph.controller import (config_values, i_controller, lifx_lan_api,
                                 light_set as light_set_mod)
from bardolph.lib import i_lib, injection, settings
from bardolph.parser.parse import Parser
from bardolph.runtime import runtime_module
from bardolph.vm import machine as machine_mod
from bardolph.vm.machine import Machine

Dev = namedtuple('Dev', 'label group location kind zones h w',
                 defaults=('plain', 0, 0, 0))

POP_EMPTY = ()
POP_ONE = (Dev('a', 'g', 'p'),)
POP_THREE = (Dev('a', 'g', 'p'), Dev('b', 'g', 'q'), Dev('c', 'h', 'q'))
POP_MIXED = (Dev('a', 'g', 'p'), Dev('s', 'g', 'q', 'strip', 8),
             Dev('m', 'h', 'q', 'matrix', 0, 2, 3))


class RecClock(i_lib.Clock):
    """Recording clock: nothing sleeps; requests go to the trace."""

    def __init__(self, log):
        self._log = log

    def start(self): pass
    def stop(self): pass
    def reset(self): pass

    def pause_for(self, delay):
        self._log.append(('wait', delay))

    def wait_until(self, time_pattern):
        self._log.append(('wait_until', match_set(time_pattern)))


def match_set(pattern):
    return frozenset((h, m) for h in range(24) for m in range(60)
                     if pattern.match(h, m))


class RecOutput(i_lib.Output):
    def __init__(self, log):
        self._log = log

    def out(self, output):
        self._log.append(('out', output))

    def newline(self):
        self._log.append(('nl',))

    def flush(self):
        self._log.append(('flush',))


class LogRecorder:
    """Stands in for the `logging` module inside bardolph.vm.machine."""

    def __init__(self):
        self.errors = []     # (message, exc_type_name, exc_repr, tb_summary)
        self.warnings = []

    def debug(self, *a, **k): pass
    def info(self, *a, **k): pass

    def warning(self, msg, *a, **k):
        self.warnings.append(str(msg))

    def error(self, msg, *a, **k):
        et, ev, tb = sys.exc_info()
        where = None
        if tb is not None:
            last = tb
            while last.tb_next is not None:
                last = last.tb_next
            code = last.tb_frame.f_code
            where = '%s:%s' % (code.co_filename.rsplit('/', 1)[-1], code.co_name)
        self.errors.append((str(msg), et.__name__ if et else None,
                            repr(ev) if ev else None, where))


class Result:
    __slots__ = ('accepted', 'errors', 'trace', 'abort', 'steps', 'capped',
                 'machine', 'raised', 'warnings', 'program')

    def __repr__(self):
        return 'Result(accepted=%r, abort=%r, capped=%r, steps=%r, trace=%r)' % (
            self.accepted, self.abort, self.capped, self.steps, self.trace)


class World:
    def __init__(self, population=POP_THREE, overrides=None, clock='record',
                 output='record', fault=None):
        self.population = tuple(population)
        self.net = simnet.Net()
        self.net.fault = fault
        self.devices = [
            simnet.SimDevice(self.net, d.label, d.group, d.location, d.kind,
                             d.zones, d.h, d.w) for d in self.population]
        self.by_label = {d.label: d for d in self.devices}
        self.log_rec = LogRecorder()
        self._overrides = overrides or {}
        self._clock_kind = clock
        self._output_kind = output
        self.install()

    def install(self):
        """(Re)bind everything; called per World and whenever another World
        may have been installed in between."""
        injection.configure()
        conf = dict(config_values.functional)
        conf.update({'single_light_discover': True, 'sleep_time': 0.1,
                     'log_to_console': False})
        conf.update(self._overrides)
        settings.using(conf).configure()
        runtime_module.configure()
        if self._clock_kind == 'record':
            self.clock = RecClock(self.net.log)
            injection.bind_instance(self.clock).to(i_lib.Clock)
        elif self._clock_kind == 'real':
            from bardolph.lib import clock as clock_mod
            clock_mod.configure()
        if self._output_kind == 'record':
            self.output = RecOutput(self.net.log)
            injection.bind_instance(self.output).to(i_lib.Output)
        elif self._output_kind == 'stdout':
            from bardolph.lib import std_out_output
            std_out_output.configure()
        simnet.SimLan.current_net = self.net
        simnet.SimLan.current_devices = self.devices
        lifx_lan_api.lifxlan = types.SimpleNamespace(
            LifxLAN=simnet.SimLan, errors=_real_lifxlan.errors)
        lifx_lan_api.configure()
        machine_mod.logging = self.log_rec
        logging.disable(logging.CRITICAL)     # bardolph logs through the root logger; checks read recorders instead
        machine_mod.getch = lambda: '!'
        machine_mod.print = lambda *a, **k: None      # `pause` / `breakpoint` chatter
        self.light_set = light_set_mod.LightSet()
        self.discover_ok = self.light_set.discover()
        injection.bind_instance(self.light_set).to(i_controller.LightSet)
        self.net.log.clear()
        self.net.attempts.clear()

    def reset(self):
        for d in self.devices:
            d.reset_state()
        self.net.log.clear()
        self.net.attempts.clear()
        self.log_rec.errors.clear()
        self.log_rec.warnings.clear()

    # ------------------------------------------------------------------
    def compile(self, text):
        parser = Parser()
        ok = parser.parse(text)
        return parser, ok

    def run_program(self, program, cap=5000, machine=None, stop_at=None, observer=None):
        """Run a compiled program on a real Machine; returns Result."""
        res = Result()
        res.accepted = True
        res.errors = ''
        res.program = program
        m = machine or Machine()
        res.machine = m
        counter = [0, False]
        m._mc_observer = observer
        m._mc_net = self.net
        if not getattr(m, '_mc_wrapped', False):
            m._mc_counter = counter
            m._mc_cap = cap
            m._mc_stop_at = stop_at
            for op, fn in list(m._fn_table.items()):
                m._fn_table[op] = _wrap(m, fn)
            m._mc_wrapped = True
        else:
            m._mc_counter = counter
            m._mc_cap = cap
            m._mc_stop_at = stop_at
        res.raised = None
        nerr = len(self.log_rec.errors)
        try:
            m.reset()
            m.run(program)
        except BaseException as ex:  # noqa
            if isinstance(ex, (KeyboardInterrupt, SystemExit)):
                raise
            res.raised = '%s: %s' % (type(ex).__name__, ex)
        res.steps = counter[0]
        res.capped = counter[1]
        res.abort = None
        for e in self.log_rec.errors[nerr:]:
            if e[0].startswith('Machine stopped due to'):
                res.abort = e
        res.trace = list(self.net.log)
        res.warnings = list(self.log_rec.warnings)
        return res

    def run_script(self, text, cap=5000):
        parser = Parser()
        try:
            ok = parser.parse(text)
        except Exception as ex:
            res = Result()
            res.accepted = None
            res.errors = parser.get_errors()
            res.raised = 'compile %s: %s' % (type(ex).__name__, ex)
            res.trace, res.abort, res.steps, res.capped = [], None, 0, False
            res.machine = None
            res.program = None
            res.warnings = []
            return res
        if not ok:
            res = Result()
            res.accepted = False
            res.errors = parser.get_errors()
            res.raised = None
            res.trace, res.abort, res.steps, res.capped = [], None, 0, False
            res.machine = None
            res.program = None
            res.warnings = []
            return res
        return self.run_program(parser.get_program(), cap)


def _wrap(m, fn):
    def stepped():
        c = m._mc_counter
        c[0] += 1
        m._mc_net.epoch = c[0]
        if c[0] > m._mc_cap:
            c[1] = True
            m.stop()
            return None
        if m._mc_stop_at is not None and c[0] == m._mc_stop_at:
            m.stop()
        obs = m._mc_observer
        if obs is not None:
            obs(m)
        return fn()
    return stepped
