#!/venv/bin/python
"""Run the pinned test suite on a tree (default /repo) and compare with BASELINE.json.

usage: baseline.py [repo_dir]   -> exit 0 iff every stable_pass test passes.
"""
import json, os, subprocess, sys, tempfile
import xml.etree.ElementTree as ET

repo = sys.argv[1] if len(sys.argv) > 1 else '/repo'
base = json.load(open('/root/.vp/BASELINE.json'))
want = set(base['stable_pass'])
fd, junit = tempfile.mkstemp(suffix='.xml', dir='/var/tmp'); os.close(fd)
env = dict(os.environ); env.pop('BARDOLPH_VERIF', None); env['PYTHONDONTWRITEBYTECODE'] = '1'
p = subprocess.run(['/venv/bin/python', '-m', 'pytest', '-q', '-p', 'no:cacheprovider', '--timeout=900',
                    '--continue-on-collection-errors', '--junitxml=' + junit],
                   cwd=repo, env=env, capture_output=True, text=True)
passed = set()
for tc in ET.parse(junit).getroot().iter('testcase'):
    if not any(ch.tag in ('failure', 'error', 'skipped') for ch in tc):
        passed.add('%s::%s' % (tc.get('classname'), tc.get('name')))
os.unlink(junit)
missing = sorted(want - passed)
print('baseline: %d/%d stable tests pass' % (len(want & passed), len(want)))
for m in missing:
    print('  NOT PASSING:', m)
sys.exit(1 if missing else 0)
