#!/bin/sh
# usage: mutant.sh <patch.diff> [--tests] <ID[:tier]>...
# Applies a patch to a scratch copy of /repo (under /var/tmp), optionally runs the
# pinned test suite on it, runs the named checks against it, removes the copy.
patch="$1"; shift
dir=$(mktemp -d /var/tmp/mut.XXXXXX)
rsync -a --exclude .git --exclude __pycache__ --exclude '*.egg-info' /repo/ "$dir"/
( cd "$dir" && patch -p1 -s < "$patch" ) || { echo "PATCH FAILED"; rm -rf "$dir"; exit 3; }
rc=0
if [ "$1" = "--tests" ]; then
  shift
  /verif/tools/baseline.py "$dir" | tail -3
fi
for spec in "$@"; do
  id=${spec%%:*}; tier=${spec#*:}; [ "$tier" = "$spec" ] && tier=quick
  out=$(cd /verif && BARDOLPH_REPO="$dir" VERIF_NO_EVIDENCE=1 ./check "$id" "$tier" 2>&1)
  code=$?
  echo "$out" | grep -E "^(VIOLATION|KNOWN|HARNESS|C[0-9]+ )" | cut -c1-260 | head -8
  echo "== $id $tier exit=$code"
done
rm -rf "$dir"
