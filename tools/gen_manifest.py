#!/venv/bin/python
"""Regenerates /verif/MANIFEST.json from the table below (run after adding a check)."""
import json
import os
import sys

VERIF = os.path.dirname(os.path.dirname(os.path.abspath(__file__)))
sys.path.insert(0, VERIF)

ALL = ['C%02d' % i for i in range(1, 21)]

# property -> (technique, level text, level note, design ref)
CHECKS = {}


# parts added after the seeding rounds (DESIGN.md 7.6-7.13); appended to the description of the base enumeration
ADDED = {
    'C01': ' Added: slices R (returns out of nested loops), S (loop headers reading their own variable), L (names differing in capitalisation).',
    'C02': ' Added: every whole power a^b (2<=a<=12, b<=45) exactly; random with whole-number float bounds; two jobs evaluating the same built-in '
           'on two controlled threads, every schedule with <=1 preemption (thorough 2 for three short pairs), each job vs its solo run.',
    'C03': ' Added: macros named like parameters/locals; returns out of nested loops; five long-run scripts (12 000 / 60 000 calls, returns, breaks, recursions in one run).',
    'C04': ' Added: headers reading their own variable; repeat-in lists of calls and variables; mixed-case names; four pairs of jobs iterating over the '
           'same name lists on two controlled threads (<=1 preemption).',
    'C05': ' Added: macro definitions, group-name loops and a second routine definition in the skeleton alphabet.',
    'C06': ' Added: (e) operator-like strings and braces round operands, (f) every control skeleton compiled and run, (g) every nesting depth 1..400 '
           '(thorough 1..1200) of ten constructs and every literal length to 6000 by steps; rule-breakers for every re-use of a macro and incomplete headers.',
    'C07': ' Added: round trips after earlier commands; out-of-range rgb next to zeros; pairs of jobs sending different colours through the same '
           'command path on two controlled threads (<=1 preemption; thorough one pair at 2).',
    'C08': ' Added: harnesses entering through controller/ls_module.queue_script (module re-imported per execution) and clients that only clear the queue; '
           'exclusion judged from the instant a job thread is started; bytecode-granularity points (sys.monitoring).',
    'C09': ' Added: bound-2 windows armed at the clock\'s first tick (quick) and at the first instruction (thorough); bytecode-granularity tasks; '
           'no instruction may begin after a stop issued during a wait that cannot end by itself.',
    'C10': ' Added: re-run of the same job, sub-millisecond delays, hour-boundary offsets, a time of day that has already arrived with the script behind schedule.',
    'C11': ' Added (quick too): every ordered triple and quadruple over nine patterns sharing hour/minute texts.',
    'C12': ' Added: get from a silent light in every unit mode; two-command scripts (stale matrix canvas); a script next to the discovery/refresh thread '
           'on controlled threads (<=1 preemption), script commands vs solo run.',
    'C13': ' Added: the same BFS with every getter called after every event; fractional ages; the VM\'s DISC/DNEXT/DISCM/DNEXTM over a directory changed '
           'after the k-th step, every k/walk/direction/change; sorted lists built from an iterable, mixed-case alphabet.',
    'C14': ' Added: start states after a switch followed by an assignment of every syntactic kind, switches inside called routines, fractional kelvins, time of day pending.',
    'C15': ' Added: and-lists of mixed operands; units switches, commands for other lights and float bounds inside blocks; blocks inside routines.',
    'C16': ' Added: braces round expression operands and repeat-in list elements; calls with calls among their arguments; single-call routine bodies; '
           'a comment attached to the preceding token as a gap alternative.',
    'C17': ' Added: 29 texts (name-leak probes, built-in names as variables, failing definitions inside loops); re-run family with macros; one ScriptJob compiling A then B; '
           'eight pairs of jobs on two controlled threads (<=1 preemption; thorough two short pairs at 2).',
    'C18': ' Added: shared-colour populations; every Latin-1 character incl. control characters and splitlines separators; the web Capture handler pressed twice.',
    'C19': ' Added: values that are calls in every position; variables named like registers; a job after a failed job.',
    'C20': ' Added: drain scenarios up to 40 queued requests; liveness of the (fake) job threads as ground truth for "running"; the shipped web/manifest.json '
           '(every button, Capture -> Retrieve); stop-current/stop-all must answer without raising.',
}


def check(pid, technique, text, note, ref):
    CHECKS[pid] = (technique, text + ADDED.get(pid, ''), note, ref)


check('C11',
      'bounded-exhaustive enumeration of pattern strings / or-lists / use histories on the real parser+VM vs reference predicate',
      'Every string of length <=5 (thorough: <=6) over {0-9,*,:} is compiled and run; the full '
      '(accepted pattern x 1440 minutes) table is compared with a reference predicate; every ordered pair '
      '(thorough: also triples, larger pattern set) joined by `or`; every history of <=2 (thorough <=3) uses '
      'over literal/macro x or x loop.  Exhaustive within those bounds, no sampling.',
      'Recording clock at the i_lib.Clock seam; reference predicate in mc/checks/c11.py; `*:*` may be accepted or rejected.',
      'DESIGN.md C11')

check('C01',
      'bounded-exhaustive program enumeration (three slices) through the real lexer/parser/codegen/loader/VM/device wrappers vs an executable reference interpreter',
      'Every program of slice K (control skeletons, <=6 nodes quick / <=7 thorough), V (all sequences of <=3 commands over a ~66-statement '
      'alphabet on four populations) and X (commands inside control with operands from loop variables, parameters, return values) is compiled '
      'and run on the real VM over the simulated LAN; the complete event trace (delays requested, device calls with integer arguments, output) '
      'must equal the reference interpreter\'s.  Exhaustive within the stated sizes.',
      'Reference interpreter mc/lang/ref.py (written from docs/language.rst); simulated LAN at the lifxlan seam; recording clock. '
      'Shapes the manual leaves open are never generated (DESIGN.md section 4).',
      'DESIGN.md C01')

check('C05',
      'explicit-state exploration of every compiled image as a pushdown system, product with the source transition system, relocation identity, concrete conformance',
      'For every control skeleton (<=5 nodes quick / <=6 thorough; routine definitions in every statement position, all loop kinds, break, '
      'return) ALL abstract (pc, frame-stack) states of the loaded image are explored with both successors of each conditional jump; '
      'invariants (pc inside image, in a routine body iff called, END_LOOP finds a loop frame, calls name existing routines, halt with empty '
      'stack) hold in every state; marker languages of image and source agree by subset construction to depth 12; every jump keeps its '
      'target object across loading; every concrete VM step is an abstract edge.',
      'Abstract machine in mc/explore/pda.py mirrors the control part of Machine; bound to it by the concrete conformance run. Recursion cut at 3 active calls on both sides.',
      'DESIGN.md C05')

check('C02',
      'bounded-exhaustive enumeration of typed expression trees x renderings x value positions vs Python evaluation; exhaustive exploration of the random source\'s answer sequences',
      'Every typed tree with <=3 operators (thorough: 4 over 8 operators) over the 14 documented operators with prime leaves, every '
      'single leading-minus / logical-zero variant, every operand kind, in three renderings (minimal, full parentheses, no white space) and '
      'nine value positions, is compiled and run and must print the Python value of the tree. Built-ins on grids vs their prose. '
      '[random a b]: ALL answer sequences of getrandbits/random() (choice points) for -3<=a<=b<=8: result set must equal {a..b}.',
      'Python arithmetic as oracle (true division, **, % on non-negatives); random.Random subclass with choice-point primitives swapped in at bardolph_math.py_random.',
      'DESIGN.md C02')

check('C03',
      'bounded-exhaustive program enumeration (scoping alphabet) vs reference interpreter',
      'Names x,y,z are used at once as globals, parameters and locals: every single-routine program with body cost <=2 (thorough 3) '
      'x 6 parameter lists x every argument tuple x 4 call-site kinds, every two-routine program of the call-form x argument-naming x '
      'context product, calls as arguments of calls, recursion templates to depth 3 (locals before/after, inside loops, with return value). '
      'Printed values before, inside and after each call must equal the reference scoping rules.',
      'Reference scoping per docs/language.rst (mc/lang/ref.py); programs reading a name with no textually earlier assignment are not generated (compile-time rule).',
      'DESIGN.md C03')
check('C04',
      'bounded-exhaustive enumeration of loop forms x populations vs reference interpreter',
      'Every loop spec (counts 0,1,2,3,5 as literal/variable/expression; all 36 integer ranges in [-2,3]; interpolation and cycle grids incl. '
      'negative/fractional; all/group/location/in-list iteration with from/cycle) x break none/unconditional/second-pass x inside a routine; '
      'cycle in each unit mode; nested pairs (full x reduced, thorough full x full) x 5 break placements; populations of 0, 1, 2, 4 lights.',
      'Reference loop semantics DESIGN.md Appendix A; loop variables are not read after their loop (not documented).',
      'DESIGN.md C04')

check('C06',
      'bounded-exhaustive enumeration of token strings, single-point mutations of a valid corpus, character strings and constructed rule-breakers through the real compiler and VM',
      'Every token string of length <=3 over a ~100-token vocabulary (raw and after a defining prelude; thorough adds length 4 over a 40-token core), '
      'every single-point mutation (delete/duplicate/swap/truncate/replace) of every compilable program of the docs+scripts corpus, every Latin-1 '
      'string of length <=2 and every length-3 string over 40 symbols, and ~240 constructed rule-breakers in 5 contexts. Each must end in accept '
      'or a Line-numbered rejection with no program; every accepted text is loaded and run and must not hit an internal fault.',
      'Internal-fault classification by exception type and raising frame (see evidence assumptions); script-level run-time errors are counted, not judged.',
      'DESIGN.md C06')

check('C16',
      'bounded-exhaustive enumeration of re-layouts of token sequences, bracket/brace variants, identifiers and string contents through the real lexer+parser (listing equality, behavioural equality)',
      'For every corpus/generated subject: all whole-program layouts, every single-gap deviation, gap pairs for a seed-rotated subset, every '
      'abbreviation subset must compile to the identical instruction list; every single call-bracket flip and every single braced value (listing '
      'equal after the PUSH/POP==MOVE rewrite, traces equal when run); every identifier of length <=2 (thorough 3 over 12 chars), every case '
      'variant of every reserved word, the lexer-internal class names, in 5 roles and case-twin distinctness; every Latin-1 character in 4 string '
      'positions x 3 forms and all pairs of lexically loaded characters.',
      'Token texts of corpus programs come from an independent regex splitter; `not`, `breakpoint`, built-in names outside the identifier alphabet; one open known finding (backslash before closing quote).',
      'DESIGN.md C16')

check('C17',
      'explicit-state BFS over compile histories on one Parser (differential oracle vs fresh Parser); exhaustive stop-point enumeration of re-runs; ordered job pairs',
      '(a) every history of compile requests over 14 texts on one Parser, canonical parser state de-duplicated, to a fixpoint or depth 3 (thorough 4): '
      'result, error text and listing equal a fresh Parser\'s; (b) for each program of K/V/X slices (stride 9 quick, all thorough): two complete runs and, for '
      'EVERY instruction index k, a run stopped at k followed by a complete run, all equal to the first trace, listing unchanged; (c) every ordered '
      'pair of 12 state-dirtying jobs: second job equals its solo trace.',
      'Recording clock/output; device state reset between jobs of a pair; canonical parser state = all Parser/Context/CodeGen fields not reset by parse().',
      'DESIGN.md C17')

check('C19',
      'bounded-exhaustive enumeration of output-statement sequences and format strings under the production stdout binding vs reference text',
      'Every sequence of <=3 (thorough 4) statements over a 24-statement alphabet (print/println/printf with every value kind, a device command) and '
      'every format string of <=3 fields over auto/numbered/named-register/named-variable x 5 specs x separators, run with std_out_output.configure() '
      'and sys.stdout captured into the ordered request log: text must match the documented text (str(), single spaces, println ends the line, '
      'str.format), and output must be ordered with device commands as in the source.',
      'White space at printf junctions and the final line break are not compared; formats str.format rejects are skipped.',
      'DESIGN.md C19')

check('C08',
      'stateless deviation-bounded schedule exploration (CHESS-style) of the real JobControl/Agent under controlled threads, linearizability oracle',
      'For each of 10 harnesses (1-3 client threads issuing add/insert/spawn/clear/stop with 1-4 jobs that finish, raise or wait for a stop) '
      'ALL schedules with <=2 deviations (thorough: 3 for the smaller harnesses, plus more harnesses) are executed on the real code with every line of '
      'lib/job_control.py and every Thread/RLock/Event operation a switch point. Every execution is judged: no two queued jobs at once, exactly '
      'once, raising job does not stall, drained at quiescence, background jobs reported running exactly while they run, no DEADLOCK/SPIN/OVERRUN, '
      'start order linearizable against the sequential queue specification (brute-force over interval-respecting orders).',
      'Baton scheduler (mc/explore/vthreads.py): one thread runs at a time; non-default successor at a blocking point costs one deviation; replay determinism self-checked every 97th schedule.',
      'DESIGN.md C08')

check('C09',
      'stateless deviation-bounded schedule exploration of JobControl+ScriptJob+Machine+Clock over virtual time with the stop request gated at every scheduling point',
      'For every (script shape x stop API) pair the stop is issued at EVERY scheduling point after the job thread was started (first 70 points, free choice) '
      'combined with every schedule with <=1 further deviation (preemption, non-default successor, stall) inside a window after the stop (quick: 8 deep pairs, others stop '
      'positions only; thorough: all pairs, plus 2 deviations on narrowed windows). Judged per execution: at most one VM instruction begins after the stop returned, '
      'the job thread ends before the virtual horizon although the awaited delay/time never arrives, no DEADLOCK/SPIN/OVERRUN, follower runs (or was legitimately '
      'cleared/stopped), re-queued run completes.',
      'Real Clock thread on virtual time (tick 1 s), fair scheduler (time slice, yield on already-set event). One open known finding (stop before the run is armed), 5 signatures by script.',
      'DESIGN.md C09')

check('C10',
      'stateless deviation-bounded schedule exploration of the real Clock thread and Machine over virtual time; timeline oracle on the virtual-time trace',
      'For every configuration (delay sequences over {0,0.5,1,2.5} in logical seconds and raw ms x device work {0,0.4,3} s x tick {1,0.3} s, plus time-of-day waits '
      'before/between/after with the wall clock 0..2 minutes short) every schedule with <=1 deviation (thorough <=2 for single delays, all length-3 sequences at 1) '
      'is executed; the k-th delay never returns before S+c_k, returns at once when already due, otherwise within one tick (+ stalled time); zero delays never touch '
      'the clock; raw values are ms; the time line restarts when the awaited minute is first seen; commands only after their delay.',
      'Virtual time advances only when nothing is runnable or through stall deviations (amount tracked and added to the lateness allowance).',
      'DESIGN.md C10')

check('C12',
      'exhaustive enumeration of fault assignments (answer / silent per device request, bounded number of silent requests) on the real retry/wrapper/VM stack over the simulated LAN',
      'For each of ~60 menu scripts (every command kind on every target kind, unknown names, every capability mismatch, a loop and a routine over a silent light) '
      'and 3 discovery variants, EVERY assignment with <=6 (thorough 9) silent requests is executed: the script runs off its end (markers), devices with no silent request see '
      'exactly the fault-free requests and arguments, no logical request is tried more than 3 times, exhausted ones are logged; discover() returns a bool, never raises, leaves the '
      'directory unchanged on failure, and a script run afterwards does not abort.',
      'Faults = WorkflowException from the simulated device before it acts; broadcast frames outside the fault alphabet; logical request = attempts of one (light, op) within one VM instruction.',
      'DESIGN.md C12')

check('C13',
      'explicit-state BFS to a fixpoint over the real LightSet with canonical-state de-duplication, reference directory and structural invariants in every state; exhaustive SortedList probes and iteration systems',
      'Events per state: 125 population snapshots (names a,b,c x groups g,h x locations p,q x absent), failed discovery, two time advances, expire, refresh. Quick: names a,b '
      'to a fixpoint plus a,b,c to depth 4 (~460k transitions); thorough: a,b,c to the fixpoint (14 173 states, 1.84M transitions, depth 8). Every state is compared with a '
      'reference directory and the invariants of the property. SortedList: every subset of 6 names x 13 probes for next/prev/first/last/has, and every (list<=5, cursor) '
      'iteration under <=2 (thorough 3) interleaved add/remove events in both directions.',
      'Each transition rebuilds a fresh real LightSet and replays the history (no state copying); canonical form argued in DESIGN.md C13.',
      'DESIGN.md C13')

check('C07',
      'exhaustive enumeration of finite numeric domains through every command path of the real VM and device wrappers vs exact rational reference',
      'All 65 536 raw values of hue, saturation, brightness and kelvin (light and zone paths; thorough: every path), out-of-range/fractional raw values on every path, logical hue '
      '-720..1080 step 0.25 and percentages -50..150 step 0.05 and kelvin grids on every path (light, group, location, all, and-list, zone, matrix cell, block, default+matrix), '
      'duration sets incl. the 2^32 ms boundary on every colour and power path in all three unit modes, delays, rgb triples on a grid; and the get->set round trip in logical units '
      'for all 65 536 values of each component: every transmitted integer is in range and the nearest integer to the exact rational formula.',
      'Per path the script is compiled once and only the MOVEQ literal is substituted; rgb percentages outside 0..100 are checked for range only (they name no colour).',
      'DESIGN.md C07')

check('C14',
      'bounded-exhaustive enumeration of (register contents x chains of units statements) as pairs of executions on the real VM',
      'For every start state of the grid (hue 0..360 step 7.5 x 4 saturations x 3 brightnesses; raw boundary values cubed; rgb percentages cubed; time/duration sets) '
      'and every chain of <=3 (thorough 4) units statements the script is run with and without the chain: transmitted colour equal within one raw unit (as colours through rgb / '
      'degenerate), duration and pending delay equal to the ms, kelvin bit-identical; the registers rewritten by each switch (all 9 printed before and after) are within the manual\'s table; '
      'a switch to the current mode changes nothing.',
      'Differential oracle (two executions), no reference arithmetic involved.',
      'DESIGN.md C14')
check('C15',
      'bounded-exhaustive enumeration of zone ranges and stage-rectangle sequences on several strip lengths / matrix sizes vs reference painting',
      'Every zone a / a..b on strips of 1,2,8,16 zones; on matrices 1x1, 2x3, 3x2, 6x5 every inclusive rectangle with either end omitted in the one-line and one-stage-block forms '
      '(rows/columns in either order; literal/variable/expression bounds), every sequence of <=2 (thorough 3; 6x5: pairs) stage rectangles with and without a saved default, loop-index '
      'and routine stages, in all three unit modes with non-integral values: exactly one zone/tile message per set with exactly the reference cells and converted colours.',
      'Reference painting in mc/lang/ref.py; conversion per C07\'s rule; reversed/out-of-range ranges outside the alphabet.',
      'DESIGN.md C15')
check('C18',
      'bounded-exhaustive enumeration of captured states / populations / names through capture -> text -> compile -> run round trips',
      'Each raw component over all 65 536 values (two backgrounds), all 6^4 boundary combinations x power x {plain, 2-zone strip, 2x2 matrix} x replay-time states, all populations '
      'of <=3 lights over 9 light kinds (strips of 1,2,8,9,17 zones; matrices 1x1,2x2,6x5) x states x replay-time states, every printable Latin-1 character in 4 name positions x 3 '
      'light kinds: the generated script compiles and restores every captured colour, power, zone and cell.',
      'Capture through the real ScriptSnapshot/LightSet/lifx_lan_light over simulated devices.',
      'DESIGN.md C18')

check('C20',
      'explicit-state BFS over request histories against the real front_end/WebApp/JobControl (Flask API stub), for every manifest of a bounded menu',
      'For every manifest of <=2 (thorough 3) distinct entries over a 14-entry menu (hostile strings, path separators, background flags, duplicate files) a BFS over request histories '
      'of <=4 (thorough 5) events (GET listed/unlisted path, /stop/<p>, /stop-current, /stop-all, /status, /capture, /, /off, completion of a running job) with canonical state (queue, '
      'active, background, live threads): only manifest-listed files are ever opened and a request opens exactly its entry, unlisted paths start nothing, a running script is not '
      'restarted, stops reach exactly the named/current/all jobs and stop-all empties the queue, status/capture render, every string reaching a template is html-escaped, default path/title.',
      'Flask/Jinja2 absent: mc/flaskstub.py (Blueprint, request, mini template interpreter over the real template files); job threads are fake threads completed by explorer events.',
      'DESIGN.md C20')

NOT_YET = 'check not built yet in this session (design in DESIGN.md); will be claimed when its command exists'


def main():
    checks = []
    for pid in ALL:
        if pid not in CHECKS:
            continue
        technique, text, note, ref = CHECKS[pid]
        checks.append({
            'property_id': pid,
            'quick_cmd': './check %s quick' % pid,
            'thorough_cmd': './check %s thorough' % pid,
            'evidence_file': '/verif/evidence/%s.json' % pid,
            'replay_cmd_template': './check %s --replay {path}' % pid,
            'engine': 'mc',
            'level_claimed': {'category': 'model_checking', 'text': text, 'design_ref': ref},
            'level_note': note,
            'technique': technique,
        })
    na_reasons = {}
    try:
        na_reasons = json.load(open(os.path.join(VERIF, 'tools', 'not_applicable.json')))
    except FileNotFoundError:
        pass
    doc = {
        'version': 1,
        'setup_cmd': './setup.sh',
        'hooks': {
            'guard': 'BARDOLPH_VERIF',
            'enable': 'none needed: every seam is patched from outside by the harness (module attributes, injection container); ./check exports BARDOLPH_VERIF=1 for uniformity',
            'baseline_off_cmd': 'cd /repo && env -u BARDOLPH_VERIF /venv/bin/python -m pytest -ra -q -p no:cacheprovider --timeout=900 --continue-on-collection-errors',
            'source_commits': [],
            'add_only': True,
        },
        'engines': [{
            'name': 'mc',
            'path': '/verif/mc',
            'serves_properties': sorted(CHECKS),
            'kind_free_text': 'hand-written explicit-state / stateless bounded-exhaustive explorers in Python driving the real bardolph code over a simulated LAN, virtual time and controlled threads',
        }],
        'checks': checks,
        'notes': 'All checks run from /verif against $BARDOLPH_REPO (default /repo) working tree; see DESIGN.md. known_findings.json lists recorded/fixed defects.',
        'not_applicable': [
            {'property_id': pid, 'reason': na_reasons.get(pid, NOT_YET)}
            for pid in ALL if pid not in CHECKS],
    }
    with open(os.path.join(VERIF, 'MANIFEST.json'), 'w') as f:
        json.dump(doc, f, indent=1)
        f.write('\n')
    print('MANIFEST.json: %d checks, %d not_applicable' % (len(checks), len(doc['not_applicable'])))


if __name__ == '__main__':
    main()
