#!/usr/bin/env python3
"""add_finding.py fixed|open PROP SIG COMMIT-or-'-' "what failed"  -> appends to known_findings.json"""
import json, sys
status, prop, sig, commit, what = sys.argv[1:6]
p = '/verif/known_findings.json'
d = json.load(open(p))
e = {"property": prop, "sig": sig, "status": status}
if status == 'fixed':
    e["commit"] = commit
    e["what"] = "fixed: property=%s %s %s" % (prop, commit, what)
else:
    e["what"] = what
d['findings'] = [x for x in d['findings'] if not (x['property'] == prop and x['sig'] == sig and x.get('commit') == e.get('commit'))] + [e]
json.dump(d, open(p, 'w'), indent=1); open(p, 'a').write('\n')
