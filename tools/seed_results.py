#!/venv/bin/python
"""seed_results.py — regenerate seeded/RESULTS.md from the meta.json files."""
import glob
import json
import os
import re

HERE = os.path.dirname(os.path.dirname(os.path.abspath(__file__)))
HEAD = """# Independently seeded property-breaking changes

Each directory holds `patch.diff` (against /repo at the time of seeding), the seeder's demonstration, its README and `meta.json`
(written by `tools/seed_intake.py`: the patch applies to a scratch copy, the 186 pinned tests still pass, the demonstration passes on the
unchanged tree and fails with the change, and which checks report it). The seeders were sub-agents given only the property
text and a scratch worktree; nothing from /verif. Seeders of rounds 2 to 9 were additionally told what earlier rounds had tried for their
property. A tier suffix `:thorough` means the quick tier of that check does not reach the change and the thorough tier does.

| seed | property | tests pass | demo ok/fails | reported by | change |
|---|---|---|---|---|---|
"""


def main():
    rows = []
    for f in sorted(glob.glob(os.path.join(HERE, 'seeded', 's*-C*', 'meta.json')),
                    key=lambda p: (p.split('/')[-2].split('-')[0], p)):
        m = json.load(open(f))
        txt = m.get('needs_to_manifest', '')
        line = next((l for l in txt.splitlines() if 'hange' in l and not l.startswith('#')), txt[:200])
        line = re.sub(r'\s+', ' ', line).replace('|', '/')[:260]
        rows.append('| %s | %s | %s | %s/%s | %s | %s |' % (
            m['seed'], m['property'], m['test_suite_passes_with_change'], m['demo_passes_unchanged'],
            m['demo_fails_with_change'], ', '.join(m['detected_by']) or '**none**', line))
    notes = open(os.path.join(HERE, 'seeded', 'NOTES.md')).read()
    open(os.path.join(HERE, 'seeded', 'RESULTS.md'), 'w').write(HEAD + '\n'.join(rows) + '\n\n' + notes)
    print(len(rows), 'seeds;', sum(1 for r in rows if '**none**' in r), 'unreported')


main()
