#!/bin/sh
# run every registered check at the given tier (default quick); prints one summary line each
tier=${1:-quick}
cd /verif
fail=0
for i in ${CHECKS:-01 02 03 04 05 06 07 08 09 10 11 12 13 14 15 16 17 18 19 20}; do
  out=$(./check C$i $tier 2>&1); code=$?
  echo "$out" | grep -E "^(VIOLATION|HARNESS)" | cut -c1-200
  echo "$out" | grep -E "^KNOWN-FINDING" | wc -l | xargs -I{} echo "   known-finding lines: {}" | grep -v ": 0$"
  echo "$out" | tail -1 | cut -c1-200
  [ $code -ne 0 ] && { echo "   EXIT $code"; fail=1; }
done
exit $fail
