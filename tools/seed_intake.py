#!/venv/bin/python
"""seed_intake.py <PROP> <out_dir> <seed-name> [extra check IDs...]

Confirms a seeded change independently and files it under /verif/seeded/<seed-name>/:
  1. the patch applies to a scratch copy of /repo (made under /var/tmp, removed afterwards);
  2. the pinned test suite still passes on the patched copy (tools/baseline.py);
  3. the demonstration passes on the unchanged tree and fails on the patched one;
  4. the property's check (quick tier) is run against the patched copy.
Writes meta.json with everything that was run and observed.
"""
import json, os, shutil, subprocess, sys, tempfile, time

prop, out_dir, name = sys.argv[1:4]
extra = sys.argv[4:]
dest = os.path.join('/verif/seeded', name)
os.makedirs(dest, exist_ok=True)
for f in os.listdir(out_dir):
    if os.path.isfile(os.path.join(out_dir, f)) and os.path.getsize(os.path.join(out_dir, f)) < 200000:
        shutil.copy(os.path.join(out_dir, f), os.path.join(dest, f))
patch = os.path.join(dest, 'patch.diff')
demo = next((os.path.join(dest, f) for f in ('demo.py', 'demo_test.py', 'test_demo.py') if os.path.exists(os.path.join(dest, f))), None)
meta = {'property': prop, 'seed': name, 'when': time.strftime('%Y-%m-%d %H:%M:%S'), 'ran': []}


def sh(cmd, **kw):
    p = subprocess.run(cmd, shell=True, capture_output=True, text=True, **kw)
    meta['ran'].append({'cmd': cmd, 'exit': p.returncode, 'tail': (p.stdout + p.stderr)[-600:]})
    return p


def scratch(apply):
    d = tempfile.mkdtemp(prefix='seed.', dir='/var/tmp')
    sh('rsync -a --exclude .git --exclude __pycache__ --exclude "*.egg-info" /repo/ %s/' % d)
    if apply:
        p = sh('cd %s && patch -p1 -s < %s' % (d, patch))
        if p.returncode != 0:
            return d, False
    return d, True


clean, _ = scratch(False)
mut, ok = scratch(True)
meta['patch_applies'] = ok
try:
    if ok:
        p = sh('/verif/tools/baseline.py %s' % mut)
        meta['test_suite_passes_with_change'] = p.returncode == 0
        if demo:
            env = 'PYTHONDONTWRITEBYTECODE=1 PYTHONPATH=%s'
            a = sh('cd %s && %s timeout 900 /venv/bin/python %s %s' % (clean, env % clean, demo, clean))
            b = sh('cd %s && %s timeout 900 /venv/bin/python %s %s' % (mut, env % mut, demo, mut))
            meta['demo_passes_unchanged'] = a.returncode == 0 and 'FAIL' not in a.stdout
            meta['demo_fails_with_change'] = b.returncode != 0 or 'FAIL' in b.stdout
        results = {}
        for cid in [prop] + extra:
            tier = 'quick'
            if ':' in cid:
                cid, tier = cid.split(':')
            p = sh('cd /verif && BARDOLPH_REPO=%s VERIF_NO_EVIDENCE=1 timeout 3000 ./check %s %s' % (mut, cid, tier))
            lines = [l for l in p.stdout.split('\n') if l.startswith(('VIOLATION', 'KNOWN', 'HARNESS', cid + ' ')) or l.startswith('  what:')]
            results['%s:%s' % (cid, tier)] = {'exit': p.returncode, 'lines': [l[:300] for l in lines[:12]]}
        meta['checks_against_change'] = results
        meta['detected_by'] = sorted(k for k, v in results.items() if v['exit'] == 1)
finally:
    shutil.rmtree(clean, ignore_errors=True)
    shutil.rmtree(mut, ignore_errors=True)
readme = os.path.join(dest, 'README.md')
meta['needs_to_manifest'] = open(readme).read()[:1500] if os.path.exists(readme) else ''
json.dump(meta, open(os.path.join(dest, 'meta.json'), 'w'), indent=1)
print(json.dumps({k: v for k, v in meta.items() if k not in ('ran', 'needs_to_manifest')}, indent=1))
