#!/usr/bin/env python3-vt
"""Validate MANIFEST.json and evidence/*.json against the schemas (needs jsonschema: python3-vt)."""
import glob, json, sys
import jsonschema
ok = True
def val(path, schema):
    global ok
    try:
        jsonschema.validate(json.load(open(path)), json.load(open(schema)))
        print('valid  ', path)
    except Exception as ex:
        ok = False
        print('INVALID', path, str(ex)[:300])
val('/verif/MANIFEST.json', '/root/.vp/MANIFEST.schema.json')
for p in sorted(glob.glob('/verif/evidence/*.json')):
    val(p, '/root/.vp/EVIDENCE.schema.json')
for i, line in enumerate(open('/verif/properties.jsonl')):
    try:
        jsonschema.validate(json.loads(line), json.load(open('/root/.vp/PROPERTIES.schema.json')))
    except Exception as ex:
        ok = False; print('INVALID property line', i, ex)
sys.exit(0 if ok else 1)
