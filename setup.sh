#!/bin/sh
# Offline setup: nothing to build (pure Python); sanity-check the harness imports
# against /repo's working tree and run the harness self-tests.
cd "$(dirname "$0")" || exit 2
export PYTHONHASHSEED=0 BARDOLPH_VERIF=1 PYTHONDONTWRITEBYTECODE=1
mkdir -p evidence replays
/venv/bin/python -W ignore::SyntaxWarning -c "from mc import repo, world; repo.assert_from_repo(); print('mc: harness imports OK, bardolph from', repo.REPO)" || exit 1
if [ -d tests ] && ls tests/test_*.py >/dev/null 2>&1; then
  /venv/bin/python -W ignore::SyntaxWarning -m pytest -q -p no:cacheprovider tests || exit 1
fi
exit 0
