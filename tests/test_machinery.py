"""Self-tests of the verification machinery (run by setup.sh)."""
import sys, os
sys.path.insert(0, os.path.dirname(os.path.dirname(os.path.abspath(__file__))))

from mc import world
from mc.explore import choice, vthreads
from mc.lang import ref as refmod, render, harness

N = lambda v: ('num', v)
V = lambda n: ('var', n)


def outs(prog, pop=world.POP_THREE):
    r = refmod.Ref(pop)
    return [e[1] for e in r.run(prog) if e[0] == 'out']


def test_reference_matches_manual_examples():
    # docs/language.rst: "the_hue will have values of 120, 135, 150, 165, and 180"
    assert outs([('repeat', ('interp', N(5), 'h', N(120), N(180)), (('print', V('h')),))]) == [120, 135, 150, 165, 180]
    # "repeat 4 with the_hue cycle 45 ... 45, 135, 225, and 315"
    assert outs([('repeat', ('cycle', N(4), 'h', N(45)), (('print', V('h')),))]) == [45, 135, 225, 315]
    assert outs([('repeat', ('cycle', N(4), 'h', None), (('print', V('h')),))]) == [0, 90, 180, 270]
    # "assign a {3 + 4 * 5}  # a = 23" / "{(3 + 4) * 5}  # b = 35"
    assert outs([('print', ('bin', '+', N(3), ('bin', '*', N(4), N(5))))]) == [23]
    assert outs([('print', ('bin', '*', ('bin', '+', N(3), N(4)), N(5)))]) == [35]
    # "if {5 > 1 or 10 < 100 and 20 == 30}  # true"
    e = ('bin', 'or', ('bin', '>', N(5), N(1)), ('bin', 'and', ('bin', '<', N(10), N(100)), ('bin', '==', N(20), N(30))))
    assert outs([('print', e)]) == [True]
    # 3 lights: brt 10, 20, 30 (docs: "if you have 3 lights ... 10, 20, and 30")
    assert outs([('repeat', ('all', 'b', ('from', 'v', N(10), N(30))), (('print', V('v')),))]) == [10, 20, 30]
    # global hidden by parameter (docs "Sets hue to 35 ... z still contains 100")
    prog = [('assign', 'z', N(100)),
            ('define', 'f', ('z',), (('assign', 'z', ('bin', '+', V('z'), N(10))), ('print', V('z')))),
            ('callst', 'f', (N(25),), False), ('print', V('z'))]
    assert outs(prog) == [35, 100]


def test_renderer_minimal_parentheses():
    e = ('bin', '-', N(2), ('bin', '-', N(3), N(5)))
    assert render.render([('print', e)]) == 'print { 2 - ( 3 - 5 ) }'
    e = ('bin', '^', N(2), ('bin', '^', N(3), N(2)))
    assert render.render([('print', e)]) == 'print { 2 ^ 3 ^ 2 }'
    e = ('bin', '^', ('bin', '^', N(2), N(3)), N(2))
    assert render.render([('print', e)]) == 'print { ( 2 ^ 3 ) ^ 2 }'


def test_reference_and_implementation_agree_on_a_mixed_script():
    w = world.World(world.POP_MIXED)
    prog = [('setreg', 'hue', N(120)), ('setreg', 'duration', N(1.5)), ('setreg', 'time', N(2)),
            ('act', 'set', (('light', ('str', 'a')), ('group', ('str', 'g')))),
            ('act', 'set', (('zone', ('str', 's'), N(1), N(3)),)),
            ('act', 'set', (('matrix', ('str', 'm'), (N(0), None), (N(1), N(2))),))]
    assert harness.run_ast(w, prog).status == 'ok'


def test_choice_explorer_counts():
    # 3 binary points: all sequences = 8; with bound 1 = 4
    def run(ch):
        return [ch.choose(2) for _ in range(3)]
    assert len(list(choice.explore(run, bound=None))) == 8
    assert len(list(choice.explore(run, bound=1))) == 4
    got = set()
    for sh in range(3):
        for ch, r in choice.explore(run, bound=None, shard=(sh, 3)):
            got.add(tuple(r))
    assert len(got) == 8


def test_scheduler_is_deterministic_and_event_semantics():
    def execute(choices):
        ch = choice.Chooser(choices)
        s = vthreads.Scheduler(ch, horizon=100, max_steps=2000, trace_filter=None, line_points=False)
        shim = vthreads.ShimThreadingModule(s, ['w1', 'w2'])
        ev = shim.Event()
        seen = []

        def waiter(tag):
            seen.append((tag, ev.wait(5.0), s.now))

        def main():
            a = shim.Thread(target=waiter, args=('a',))
            a.start()
            ev.set()
            ev.clear()
            b = shim.Thread(target=waiter, args=('b',))
            b.start()
            a.join()
            b.join()
        v = s.run(main)
        return v, seen, ch.choices
    v1, seen1, c1 = execute([])
    v2, seen2, c2 = execute(c1)
    assert (v1, seen1) == (v2, seen2)
    # a waiter that arrives after clear() waits for the timeout and gets False
    assert ('b', False, 5.0) in seen1
